(* Conservation of an additive charge (particle number, 2 S_z, parity) by circuits built from blocks.

   Part 1 (semantics): a k-qubit matrix whose entries vanish between local basis states of different
   charge, applied to distinct qubits of a register Q, maps states supported on one charge sector of Q into
   the same sector - for registers of any size.  Hence so does every sequence of such blocks.
   Part 2 (symbolic check): the vanishing of the entries of the product matrix of a block whose angles
   are affine in real variables is decided on its Laurent-polynomial matrix, for all values of the
   variables at once. *)
From Coq Require Import List Bool Arith Lia ZArith Reals Permutation FunctionalExtensionality.
From QP Require Import Cx Zw Lpoly Asum FMat Apply Local Gates Rsem.
Import ListNotations.
Local Open Scope C_scope.

Section Charge.
Variable c : nat -> Z.             (* the charge an occupied qubit carries *)
Variable same : Z -> Z -> bool.    (* sectors: equality of the charge, or equality modulo 2 *)
Hypothesis same_refl : forall a, same a a = true.
Hypothesis same_sym : forall a b, same a b = same b a.
Hypothesis same_trans : forall a b d, same a b = true -> same b d = true -> same a d = true.
Hypothesis same_shift : forall a b k, same a b = true -> same (k + a)%Z (k + b)%Z = true.

Definition zsum (l : list nat) (f : nat -> Z) : Z := fold_right (fun q a => (f q + a)%Z) 0%Z l.
Definition occ (b : Basis) (q : nat) : Z := if b q then c q else 0%Z.
Definition charge (Q : list nat) (b : Basis) : Z := zsum Q (occ b).
(* the charge of a local basis state x of the qubits qs *)
Fixpoint chargel (qs : list nat) (x : list bool) : Z :=
  match qs, x with
  | q :: qs', v :: x' => ((if v then c q else 0) + chargel qs' x')%Z
  | _, _ => 0%Z
  end.
Definition conserving (M : CM) (qs : list nat) : Prop :=
  forall x y, length x = length qs -> length y = length qs ->
  same (chargel qs x) (chargel qs y) = false -> M x y = C0.
Definition supp (Q : list nat) (v : Z) (psi : St) : Prop :=
  forall b, same (charge Q b) v = false -> psi b = C0.

Lemma chargel_rd qs b : chargel qs (rd b qs) = charge qs b.
Proof. unfold charge, rd, occ. induction qs as [|q qs IH]; simpl; [reflexivity|]. rewrite IH. reflexivity. Qed.

Lemma zsum_perm l l' f : Permutation l l' -> zsum l f = zsum l' f.
Proof. induction 1; simpl; try lia. Qed.
Lemma zsum_sub l f g : zsum l (fun q => (f q - g q)%Z) = (zsum l f - zsum l g)%Z.
Proof. induction l as [|q l IH]; simpl; [reflexivity|]. rewrite IH. lia. Qed.
Lemma zsum_filter l (p : nat -> bool) f : (forall q, In q l -> p q = false -> f q = 0%Z) ->
  zsum l f = zsum (filter p l) f.
Proof.
  induction l as [|q l IH]; intros H; simpl; [reflexivity|].
  destruct (p q) eqn:E; simpl; rewrite IH by (intros q' Hq'; apply H; right; exact Hq'); [reflexivity|].
  rewrite (H q (or_introl eq_refl) E). reflexivity.
Qed.

Lemma mem_filter_perm Q qs : NoDup Q -> NoDup qs -> incl qs Q ->
  Permutation (filter (fun q => existsb (Nat.eqb q) qs) Q) qs.
Proof.
  intros HQ Hqs Hin. apply NoDup_Permutation; [apply NoDup_filter; exact HQ|exact Hqs|].
  intros x. rewrite filter_In, existsb_exists. split.
  - intros [_ [y [Hy E]]]. apply Nat.eqb_eq in E. subst y. exact Hy.
  - intros Hx. split; [apply Hin; exact Hx|]. exists x. split; [exact Hx|apply Nat.eqb_refl].
Qed.

(* changing a basis state on the qubits qs only changes the charge of Q by the change on qs *)
Lemma charge_diff Q qs b b' : NoDup Q -> NoDup qs -> incl qs Q -> agree_off qs b b' ->
  (charge Q b' - charge Q b = charge qs b' - charge qs b)%Z.
Proof.
  intros HQ Hqs Hin Hag. unfold charge. rewrite <- !zsum_sub.
  rewrite (zsum_filter Q (fun q => existsb (Nat.eqb q) qs)).
  - apply zsum_perm. apply mem_filter_perm; assumption.
  - intros q _ Hq. unfold occ. rewrite (Hag q); [lia|].
    intros Hc. assert (existsb (Nat.eqb q) qs = true); [|congruence].
    apply existsb_exists. exists q. split; [exact Hc|apply Nat.eqb_refl].
Qed.

Theorem apply_preserves_sector M qs Q v psi :
  NoDup qs -> NoDup Q -> incl qs Q -> conserving M qs -> supp Q v psi -> supp Q v (apply M qs psi).
Proof.
  intros Hqs HQ Hin HM Hpsi b Hb. unfold apply.
  rewrite (asum_ext_off qs _ (fun _ => C0)); [apply asum_zero|].
  intros b' Hag.
  destruct (same (chargel qs (rd b qs)) (chargel qs (rd b' qs))) eqn:Es.
  - (* same local charge: b' lies in the sector of b, where psi vanishes *)
    assert (Hsame : same (charge Q b) (charge Q b') = true).
    { rewrite !chargel_rd in Es. pose proof (charge_diff Q qs b b' HQ Hqs Hin Hag) as D.
      replace (charge Q b') with ((charge Q b - charge qs b) + charge qs b')%Z by lia.
      replace (charge Q b) with ((charge Q b - charge qs b) + charge qs b)%Z at 1 by lia.
      apply same_shift. exact Es. }
    rewrite (Hpsi b'); [ring|].
    destruct (same (charge Q b') v) eqn:E; [|reflexivity].
    rewrite (same_trans _ _ _ Hsame E) in Hb. discriminate.
  - rewrite (HM _ _ (rd_length b qs) (rd_length b' qs) Es). ring.
Qed.

Lemma supp_scale k Q v psi : supp Q v psi -> supp Q v (fun b => k * psi b).
Proof. intros H b Hb. rewrite (H b Hb). ring. Qed.
Lemma supp_ext Q v (psi psi' : St) : (forall b, psi b = psi' b) -> supp Q v psi -> supp Q v psi'.
Proof. intros E H b Hb. rewrite <- E. apply H. exact Hb. Qed.

(* operators that keep every sector of Q *)
Definition keeps (Q : list nat) (U : Op) : Prop := forall v psi, supp Q v psi -> supp Q v (U psi).
Lemma keeps_equiv Q U V : U ≃ V -> keeps Q V -> keeps Q U.
Proof. intros [k [_ H]] HV v psi Hs b Hb. rewrite H. rewrite (HV v psi Hs b Hb). ring. Qed.
Lemma keeps_csem_app Q gs gs' : keeps Q (csem gs) -> keeps Q (csem gs') -> keeps Q (csem (gs ++ gs')).
Proof. intros H1 H2 v psi Hs. apply (supp_ext Q v (csem gs' (csem gs psi))); [intros b; rewrite csem_app; reflexivity|]. apply H2, H1, Hs. Qed.
Lemma keeps_nil Q : keeps Q (csem []).
Proof. intros v psi H. exact H. Qed.
Lemma keeps_concat Q (blocks : list (list lgate)) :
  (forall bl, In bl blocks -> keeps Q (csem bl)) -> keeps Q (csem (concat blocks)).
Proof.
  induction blocks as [|bl blocks IH]; intros H; simpl; [apply keeps_nil|].
  apply keeps_csem_app; [apply H; left; reflexivity|apply IH; intros b Hb; apply H; right; exact Hb].
Qed.
End Charge.

(* ------------------------------------------------------------------ symbolic check of a block *)
Definition chargeR (cR : list Z) (x : list bool) : Z :=
  fold_right Z.add 0%Z (map (fun cv : Z * bool => if snd cv then fst cv else 0%Z) (combine cR x)).
(* R = [0; 1; ...; k-1] are the roles of the block, cR their charges *)
Definition check_conserve (same : Z -> Z -> bool) (cR : list Z) (R : list nat) (gs : list egate) : bool :=
  let n := length R in
  let P := prodL R gs in
  let all := allbits n in
  nodupb R && forallb (wfb R) gs && Nat.eqb (length cR) n &&
  forallb (fun x => forallb (fun y => same (chargeR cR x) (chargeR cR y) || lp_eqb (P x y) lp0) all) all.

Section Sound.
Variable c : nat -> Z.
Variable same : Z -> Z -> bool.
Hypothesis same_refl : forall a, same a a = true.
Hypothesis same_sym : forall a b, same a b = same b a.
Hypothesis same_trans : forall a b d, same a b = true -> same b d = true -> same a d = true.
Hypothesis same_shift : forall a b k, same a b = true -> same (k + a)%Z (k + b)%Z = true.
Variable theta : nat -> R.
Variable pi : nat -> nat.
Hypothesis pi_inj : forall a b, pi a = pi b -> a = b.
Notation rho := (rho_of theta).

Lemma chargel_chargeR cR R x : length cR = length R -> length x = length R ->
  (forall i, (i < length R)%nat -> c (pi (nth i R 0%nat)) = nth i cR 0%Z) ->
  chargel c (map pi R) x = chargeR cR x.
Proof.
  revert cR x. induction R as [|r R IH]; intros cR x Hc Hx Hrole.
  - destruct cR; [|discriminate]. destruct x; [reflexivity|discriminate].
  - destruct cR as [|cv cR]; [discriminate|]. destruct x as [|v x]; [discriminate|].
    cbn [map chargel chargeR combine fold_right fst snd].
    rewrite (IH cR x); [|simpl in Hc; lia|simpl in Hx; lia|].
    + pose proof (Hrole 0%nat ltac:(simpl; lia)) as H0. cbn [nth] in H0. rewrite H0. unfold chargeR. reflexivity.
    + intros i Hi. apply (Hrole (S i)). simpl. lia.
Qed.

(* a block accepted by the check keeps every charge sector of every register containing its qubits,
   for all real values of its angle variables and every injective placement of its roles on qubits whose
   charges are those of the roles *)
Theorem block_keeps cR R tmpl Q :
  check_conserve same cR R (map eg tmpl) = true -> forallb gate_ok tmpl = true ->
  (forall i, (i < length R)%nat -> c (pi (nth i R 0%nat)) = nth i cR 0%Z) ->
  NoDup Q -> incl (map pi R) Q ->
  keeps c same Q (csem (map (fun g => rsem (inst theta pi g)) tmpl)).
Proof.
  intros Hc Hok Hrole HQ Hin.
  apply (keeps_equiv c same Q _ _ (rsem_units theta pi tmpl Hok)).
  unfold check_conserve in Hc. repeat (apply andb_true_iff in Hc as [Hc ?]).
  match goal with H1 : forallb (fun x => _) _ = true |- _ => rename H1 into Hall end.
  match goal with H1 : Nat.eqb _ _ = true |- _ => apply Nat.eqb_eq in H1; rename H1 into HcR end.
  match goal with H1 : forallb (wfb R) _ = true |- _ => pose proof (forallb_wf rho pi pi_inj R _ H1) as Hwf end.
  pose proof (nodupb_NoDup R Hc) as HR.
  pose proof (NoDup_map_pi pi pi_inj R HR) as HpR.
  intros v psi Hs b Hb.
  rewrite <- (map_map eg (sgate rho pi)).
  rewrite (csem_sgates rho pi). rewrite (csem_prod (map pi R) _ HpR Hwf).
  rewrite (apply_preserves_sector c same same_trans same_shift _ (map pi R) Q v psi HpR HQ Hin); [ring| |exact Hs|exact Hb].
  (* the product matrix vanishes between different local charges *)
  intros x y Hx Hy Hne. rewrite map_length in Hx, Hy.
  rewrite <- (prod_hom rho (rho_of_unit theta) pi pi_inj R (map eg tmpl) (memo lp0 (length R) (lembed R [] loneF))); auto.
  - rewrite (chargel_chargeR cR R x HcR Hx Hrole), (chargel_chargeR cR R y HcR Hy Hrole) in Hne.
    rewrite forallb_forall in Hall. specialize (Hall x (allbits_complete _ x Hx)).
    rewrite forallb_forall in Hall. specialize (Hall y (allbits_complete _ y Hy)).
    rewrite Hne in Hall. cbn [orb] in Hall. apply (lp_eqb_sound rho) in Hall. exact Hall.
  - intros x' y' Hx' Hy'. rewrite (phi_memo rho) by auto.
    rewrite (embedK_hom LP C lp0 C0 (lp_eval rho) (lp_eval_0 rho)).
    pose proof (embedK_pi pi pi_inj C0 R [] oneF x' y') as E; simpl in E; rewrite E.
    unfold embedK. destruct (restb R [] x' y'); auto. unfold loneF, oneF. apply lp_eval_1.
Qed.
End Sound.
