(* The exact cyclotomic ring Z[w]/(w^4+1), w = e^{i pi/4}: every entry of every
   constant gate matrix (Clifford+T), scaled by a power of sqrt 2, lives here, so
   matrix identities between constant gates are decided by vm_compute; [zw_eval] is
   the ring homomorphism into C that transports them to the semantic theorems. *)
From Coq Require Import ZArith Reals Lra Lia Bool Nsatz.
From QP Require Import Cx.

Record Zw : Type := mkZw { za : Z; zb : Z; zc : Z; zd : Z }.
(* value  za + zb w + zc w^2 + zd w^3 *)

Local Open Scope Z_scope.
Definition zw0 := mkZw 0 0 0 0.
Definition zw1 := mkZw 1 0 0 0.
Definition zww := mkZw 0 1 0 0.      (* w = e^{i pi/4} *)
Definition zwi := mkZw 0 0 1 0.      (* i = w^2 *)
Definition zwrt2 := mkZw 0 1 0 (-1). (* sqrt 2 = w - w^3 *)
Definition zw_of_Z (n : Z) := mkZw n 0 0 0.
Definition zw_add x y := mkZw (za x + za y) (zb x + zb y) (zc x + zc y) (zd x + zd y).
Definition zw_opp x := mkZw (- za x) (- zb x) (- zc x) (- zd x).
Definition zw_sub x y := zw_add x (zw_opp y).
Definition zw_mul x y :=
  mkZw (za x * za y - zb x * zd y - zc x * zc y - zd x * zb y)
       (za x * zb y + zb x * za y - zc x * zd y - zd x * zc y)
       (za x * zc y + zb x * zb y + zc x * za y - zd x * zd y)
       (za x * zd y + zb x * zc y + zc x * zb y + zd x * za y).
Definition zw_conj x := mkZw (za x) (- zd x) (- zc x) (- zb x).
Definition zw_eqb x y :=
  (za x =? za y) && (zb x =? zb y) && (zc x =? zc y) && (zd x =? zd y).
Fixpoint zw_pow (x : Zw) (n : nat) : Zw :=
  match n with O => zw1 | S n' => zw_mul x (zw_pow x n') end.

Lemma zw_eqb_eq x y : zw_eqb x y = true <-> x = y.
Proof.
  destruct x, y; unfold zw_eqb; simpl.
  rewrite !andb_true_iff, !Z.eqb_eq. split.
  - intros [[[-> ->] ->] ->]; reflexivity.
  - intros H; inversion H; auto.
Qed.

Lemma Zw_eq x y : za x = za y -> zb x = zb y -> zc x = zc y -> zd x = zd y -> x = y.
Proof. destruct x, y; simpl; intros; subst; reflexivity. Qed.

Lemma Zw_ring_theory : ring_theory zw0 zw1 zw_add zw_mul zw_sub zw_opp eq.
Proof.
  constructor; intros; apply Zw_eq; unfold zw_sub, zw_add, zw_mul, zw_opp, zw0, zw1;
    cbn [za zb zc zd]; ring.
Qed.
Add Ring Zw_ring : Zw_ring_theory.

(* ------------------------------------------------------------------ *)
(* evaluation into C *)
Local Open Scope R_scope.
Definition rh : R := sqrt 2 / 2.           (* cos (pi/4) = sin (pi/4) *)
Lemma rh_sq : 2 * (rh * rh) = 1.
Proof. unfold rh. pose proof (sqrt_sqrt 2 ltac:(lra)) as H. nra. Qed.
Lemma rh_pos : 0 < rh.
Proof. unfold rh. pose proof (sqrt_lt_R0 2 ltac:(lra)). lra. Qed.

Definition zw_eval (x : Zw) : C :=
  (IZR (za x) + IZR (zb x) * rh - IZR (zd x) * rh,
   IZR (zb x) * rh + IZR (zc x) + IZR (zd x) * rh).

Lemma zw_eval_0 : zw_eval zw0 = C0.
Proof. unfold zw_eval, C0; simpl; apply C_eq; simpl; ring. Qed.
Lemma zw_eval_1 : zw_eval zw1 = C1.
Proof. unfold zw_eval, C1; simpl; apply C_eq; simpl; ring. Qed.
Lemma zw_eval_add x y : zw_eval (zw_add x y) = (zw_eval x + zw_eval y)%C.
Proof. unfold zw_eval; apply C_eq; simpl; rewrite !plus_IZR; ring. Qed.
Lemma zw_eval_opp x : zw_eval (zw_opp x) = (- zw_eval x)%C.
Proof. unfold zw_eval; apply C_eq; simpl; rewrite !opp_IZR; ring. Qed.
Lemma zw_eval_mul x y : zw_eval (zw_mul x y) = (zw_eval x * zw_eval y)%C.
Proof.
  unfold zw_eval; apply C_eq; simpl;
  rewrite ?plus_IZR, ?minus_IZR, ?mult_IZR, ?plus_IZR, ?minus_IZR, ?mult_IZR;
  pose proof rh_sq as Hr; nsatz.
Qed.
Lemma zw_eval_conj x : zw_eval (zw_conj x) = Cconj (zw_eval x).
Proof. unfold zw_eval, Cconj; apply C_eq; simpl; rewrite ?opp_IZR; ring. Qed.
Lemma zw_eval_i : zw_eval zwi = Ci.
Proof. unfold zw_eval, Ci; apply C_eq; simpl; ring. Qed.
Lemma zw_eval_of_Z n : zw_eval (zw_of_Z n) = RtoC (IZR n).
Proof. unfold zw_eval, RtoC; apply C_eq; simpl; ring. Qed.
Lemma zw_eval_rt2 : zw_eval zwrt2 = RtoC (sqrt 2).
Proof. unfold zw_eval, RtoC, rh; apply C_eq; simpl; field. Qed.

Lemma cos_PI4_rh : cos (PI / 4) = rh.
Proof. rewrite cos_PI4. unfold rh.
  pose proof (sqrt_sqrt 2 ltac:(lra)). pose proof (sqrt_lt_R0 2 ltac:(lra)).
  field_simplify_eq; [lra | lra]. Qed.
Lemma sin_PI4_rh : sin (PI / 4) = rh.
Proof. rewrite sin_PI4. unfold rh.
  pose proof (sqrt_sqrt 2 ltac:(lra)). pose proof (sqrt_lt_R0 2 ltac:(lra)).
  field_simplify_eq; [lra | lra]. Qed.
Lemma zw_eval_w : zw_eval zww = Cexp (PI / 4).
Proof. unfold zw_eval, Cexp; rewrite cos_PI4_rh, sin_PI4_rh; apply C_eq; simpl; ring. Qed.

(* |x|^2 as an element of Z[sqrt 2] inside Zw: x * conj x *)
Lemma zw_norm_eval x : zw_eval (zw_mul x (zw_conj x)) = RtoC (Cnorm2 (zw_eval x)).
Proof. rewrite zw_eval_mul, zw_eval_conj, Cnorm2_conj; reflexivity. Qed.
