(* Matrices indexed by bit lists, generic in the scalar type K (instantiated with the
   exact rings for computation and with C for the semantics).  [embedK Q qs A] is the
   matrix on the role list Q of a gate with matrix A acting on the sub-list qs. *)
From Coq Require Import List Bool Arith Lia.
Import ListNotations.

Section FM.
Variable K : Type.
Variables (k0 k1 : K) (kadd kmul : K -> K -> K).

Definition FM := list bool -> list bool -> K.

Fixpoint bsum (n : nat) (f : list bool -> K) : K :=
  match n with
  | O => f []
  | S n' => kadd (bsum n' (fun y => f (false :: y))) (bsum n' (fun y => f (true :: y)))
  end.

Definition fmmul (n : nat) (A B : FM) : FM :=
  fun x z => bsum n (fun y => kmul (A x y) (B y z)).

Fixpoint lk (Q : list nat) (x : list bool) (q : nat) : bool :=
  match Q, x with
  | q0 :: Q', v :: x' => if Nat.eqb q q0 then v else lk Q' x' q
  | _, _ => false
  end.
Definition sub (Q : list nat) (x : list bool) (qs : list nat) : list bool := map (lk Q x) qs.

Fixpoint restb (Q qs : list nat) (x y : list bool) : bool :=
  match Q, x, y with
  | q :: Q', xv :: x', yv :: y' =>
      (existsb (Nat.eqb q) qs || Bool.eqb xv yv) && restb Q' qs x' y'
  | _, _, _ => true
  end.

Definition embedK (Q qs : list nat) (A : FM) : FM :=
  fun x y => if restb Q qs x y then A (sub Q x qs) (sub Q y qs) else k0.

Definition idF : FM := fun _ _ => k1.

(* memoisation through a binary tree, so that chains of products stay polynomial *)
Inductive tree := Leaf (a : K) | Node (t0 t1 : tree).
Fixpoint tabulate (n : nat) (f : list bool -> K) : tree :=
  match n with
  | O => Leaf (f [])
  | S n' => Node (tabulate n' (fun y => f (false :: y))) (tabulate n' (fun y => f (true :: y)))
  end.
Fixpoint lookup (t : tree) (x : list bool) : K :=
  match t, x with
  | Leaf a, _ => a
  | Node t0 t1, v :: x' => lookup (if v then t1 else t0) x'
  | Node _ _, [] => k0
  end.
Definition memo (n : nat) (F : FM) : FM :=
  let t := tabulate (n + n) (fun xy => F (firstn n xy) (skipn n xy)) in
  fun x y => lookup t (x ++ y).

Lemma lookup_tabulate n : forall f x, length x = n -> lookup (tabulate n f) x = f x.
Proof.
  induction n as [|n IH]; intros f x Hx; destruct x as [|v x]; simpl in *; try lia; auto.
  destruct v; rewrite IH by lia; reflexivity.
Qed.

Lemma memo_eq n F x y : length x = n -> length y = n -> memo n F x y = F x y.
Proof.
  intros Hx Hy. unfold memo. rewrite lookup_tabulate by (rewrite app_length; lia).
  rewrite <- Hx, firstn_app, Nat.sub_diag, firstn_all; simpl. rewrite app_nil_r.
  rewrite skipn_app, Nat.sub_diag, skipn_all; reflexivity.
Qed.

Lemma bsum_ext n : forall f g,
  (forall y, length y = n -> f y = g y) -> bsum n f = bsum n g.
Proof.
  induction n as [|n IH]; intros f g H; simpl.
  - apply H; reflexivity.
  - f_equal; apply IH; intros y Hy; apply H; simpl; lia.
Qed.

Lemma sub_length Q x qs : length (sub Q x qs) = length qs.
Proof. unfold sub; apply map_length. Qed.

(* all bit lists of a given length, for finite checks *)
Fixpoint allbits (n : nat) : list (list bool) :=
  match n with
  | O => [[]]
  | S n' => map (cons false) (allbits n') ++ map (cons true) (allbits n')
  end.
Lemma allbits_complete n : forall x, length x = n -> In x (allbits n).
Proof.
  induction n as [|n IH]; intros x Hx; destruct x as [|v x]; simpl in *; try lia; auto.
  apply in_or_app. destruct v; [right|left]; apply in_map, IH; lia.
Qed.

End FM.

Arguments bsum {K} kadd n f.
Arguments fmmul {K} kadd kmul n A B x z.
Arguments embedK {K} k0 Q qs A x y.
Arguments idF {K} k1 _ _.
Arguments memo {K} k0 n F x y.
Arguments bsum_ext {K} kadd n f g.
Arguments memo_eq {K} k0 n F x y.

(* relabelling the roles through an injective map does not change the embedded matrix *)
Section Relabel.
Variable pi : nat -> nat.
Hypothesis pi_inj : forall a b, pi a = pi b -> a = b.

Lemma eqb_pi a b : Nat.eqb (pi a) (pi b) = Nat.eqb a b.
Proof. destruct (Nat.eqb_spec a b) as [->|H]; [apply Nat.eqb_refl|].
  apply Nat.eqb_neq; intros E; apply H, pi_inj, E. Qed.

Lemma lk_pi Q : forall x q, lk (map pi Q) x (pi q) = lk Q x q.
Proof. induction Q as [|q0 Q IH]; intros [|v x] q; simpl; auto.
  rewrite eqb_pi, IH; reflexivity. Qed.

Lemma sub_pi Q x qs : sub (map pi Q) x (map pi qs) = sub Q x qs.
Proof. unfold sub; rewrite map_map; apply map_ext; intros; apply lk_pi. Qed.

Lemma existsb_pi q qs : existsb (Nat.eqb (pi q)) (map pi qs) = existsb (Nat.eqb q) qs.
Proof. induction qs as [|a qs IH]; simpl; auto. rewrite eqb_pi, IH; reflexivity. Qed.

Lemma restb_pi Q qs : forall x y, restb (map pi Q) (map pi qs) x y = restb Q qs x y.
Proof. induction Q as [|q Q IH]; intros [|xv x] [|yv y]; simpl; auto.
  rewrite existsb_pi, IH; reflexivity. Qed.

Lemma embedK_pi {K} (k0 : K) Q qs A x y :
  embedK k0 (map pi Q) (map pi qs) A x y = embedK k0 Q qs A x y.
Proof. unfold embedK; rewrite restb_pi, !sub_pi; reflexivity. Qed.
End Relabel.

(* ring homomorphisms commute with the matrix operations *)
Section Hom.
Variables K1 K2 : Type.
Variables (z1 : K1) (a1 m1 : K1 -> K1 -> K1) (z2 : K2) (a2 m2 : K2 -> K2 -> K2).
Variable phi : K1 -> K2.
Hypothesis phi_0 : phi z1 = z2.
Hypothesis phi_add : forall x y, phi (a1 x y) = a2 (phi x) (phi y).
Hypothesis phi_mul : forall x y, phi (m1 x y) = m2 (phi x) (phi y).

Lemma bsum_hom n : forall f, phi (bsum a1 n f) = bsum a2 n (fun y => phi (f y)).
Proof. induction n as [|n IH]; intros f; simpl; [reflexivity|].
  rewrite phi_add, !IH; reflexivity. Qed.

Lemma fmmul_hom n A B x z :
  phi (fmmul a1 m1 n A B x z)
  = fmmul a2 m2 n (fun x y => phi (A x y)) (fun x y => phi (B x y)) x z.
Proof. unfold fmmul; rewrite bsum_hom; apply bsum_ext; intros; apply phi_mul. Qed.

Lemma embedK_hom Q qs A x y :
  phi (embedK z1 Q qs A x y) = embedK z2 Q qs (fun x y => phi (A x y)) x y.
Proof. unfold embedK; destruct (restb Q qs x y); auto. Qed.
End Hom.
