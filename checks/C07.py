"""C07 - Pauli grouping and its measurement scheme are sound."""
import os

from translate import tables
from vlib import fingerprint


def run(ctx):
    ctx.trusted += [
        "Coq 8.16.1 kernel + vm_compute",
        "translate/tables.py: rotation gates of bitwise_commuting_pauli_measurement_circuit (fail-closed ast translator)",
        "hand models coq/model/Grouping.v (pauli_label_to_bsv, bsv_bitwise_commute, _add_pauli_to_groups, greedy "
        "grouping; exact N arithmetic) and coq/model/Measure.v, tied to the code by vm_compute correspondence "
        "(corr_C07.py) and AST fingerprints",
        "partial: the numpy "
        "argsort of sorted-injection on Operators (any permutation is covered by the theorem), CachedMeasurementFactory "
        "and unitarity of V (so that V P = Z V gives V P V^dagger = Z) are decided by the dense sweep",
    ]
    ctx.translate("tables", tables.run_c07, os.path.join(ctx.work, "gen"), os.path.join(ctx.work, "measrot.json"))
    fingerprint.check(ctx, "packages/core/quri_parts/core/operator/grouping/pauli_grouping.py",
                      ["_add_pauli_to_groups", "sorted_injection_grouping", "bitwise_pauli_grouping",
                       "individual_pauli_grouping"])
    fingerprint.check(ctx, "packages/core/quri_parts/core/operator/representation/bsf.py",
                      ["pauli_label_to_bsv", "bsv_bitwise_commute"])
    fingerprint.check(ctx, "packages/core/quri_parts/core/measurement/bitwise_commuting_pauli.py",
                      ["bitwise_pauli_reconstructor_factory", "bitwise_commuting_pauli_measurement",
                       "individual_pauli_measurement"])
    fingerprint.check(ctx, "packages/core/quri_parts/core/utils/bit.py", ["parity_sign_of_bits"])
    fingerprint.check(ctx, "packages/core/quri_parts/core/measurement/__init__.py", ["CachedMeasurementFactory.__call__"])
    ctx.coq(["measrot.v"], ["C07.v"])
    ctx.harness("corr_C07.py", kind="corr")
    ctx.harness("sweep_C07.py")
