"""C08 - Sampling estimation is exact under ideal sampling and stays within budget."""
from vlib import fingerprint


def run(ctx):
    ctx.trusted += [
        "Coq 8.16.1 kernel",
        "hand model coq/model/Sampling.v: pairing logic of sampling_estimate (list processing, exact) and the shot "
        "allocators over the reals (rounddown = unit*floor); tied to the code by corr_C08.py (vm_compute of the model vs "
        "a scripted allocator + recording sampler) and AST fingerprints",
        "contracts (Section variables, never axioms): the ConcurrentSampler returns one result per submitted pair in "
        "order; numpy multinomial returns non-negative integers summing to its first argument",
        "hand model coq/model/SamplingMean.v of general_pauli_expectation_estimator / general_pauli_sum_expectation_estimator "
        "(count-weighted mean; generic number type: R for the theorems, Q for the vm_compute correspondence) + fingerprints",
        "partial: binary64 rounding inside total*ratio (theorems are over R), measurement factories and the link from "
        "the mean of reconstructed eigenvalues to <psi|P|psi> (see C07) are decided by the numpy sweep",
    ]
    p = "packages/core/quri_parts/core/estimator/sampling/"
    fingerprint.check(ctx, p + "estimator.py", ["sampling_estimate", "get_estimate_from_sampling_result", "_Estimate.value",
                                                 "concurrent_sampling_estimate"])
    fingerprint.check(ctx, p + "estimator_helpers.py", ["distribute_shots_among_pauli_sets", "get_sampling_circuits_and_shots"])
    fingerprint.check(ctx, "packages/core/quri_parts/core/sampling/shots_allocator.py",
                      ["_rounddown_to_unit", "_calc_ratios", "create_equipartition_shots_allocator",
                       "create_proportional_shots_allocator", "create_weighted_random_shots_allocator"])
    fingerprint.check(ctx, p + "pauli.py", ["general_pauli_expectation_estimator", "general_pauli_sum_expectation_estimator"])
    ctx.coq([], ["C08.v"])
    ctx.harness("corr_C08.py", kind="corr")
    ctx.harness("sweep_C08.py")
