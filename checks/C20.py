"""C20 - Frozen, bound and derived objects are unaffected by later mutation."""
from vlib import fingerprint


def run(ctx):
    ctx.trusted += [
        "Coq 8.16.1 kernel + vm_compute (all C20 theorems are closed under the global context)",
        "hand model coq/model/Alias.v: names -> objects -> gate storage cells; the faithful semantics transcribes the Rust "
        "is_immutable logic of circuit.rs (freeze, get_mutable_copy, py_new, combine) and the Python wrappers of "
        "circuit_linear_mapped.py (freeze, get_mutable_copy, primitive_circuit, +, add_* with the mapping replaced); tied to "
        "the code by vm_compute correspondence over random histories incl. the ones on which the recorded Rust-side "
        "findings manifest (corr_C20.py), and AST fingerprints of the Python side; the Rust extension cannot be rebuilt or "
        "fingerprinted here (the installed binary is what runs)",
        "partial: bound circuits, UnboundParametricQuantumCircuit, quantum states (modelled as freeze), hash/equality "
        "(determined by the observed gates), CachedMeasurementFactory / convert_operator / estimator caches (theorem on the "
        "content-keyed cache model of C04) are decided on the real objects by the history sweep (sweep_C20.py)",
    ]
    fingerprint.check(ctx, "packages/circuit/quri_parts/circuit/circuit_linear_mapped.py",
                      ["ImmutableLinearMappedParametricQuantumCircuit.__init__",
                       "ImmutableLinearMappedParametricQuantumCircuit.freeze",
                       "ImmutableLinearMappedParametricQuantumCircuit.primitive_circuit",
                       "ImmutableLinearMappedParametricQuantumCircuit.get_mutable_copy",
                       "ImmutableLinearMappedParametricQuantumCircuit.gates",
                       "LinearMappedParametricQuantumCircuit.freeze", "LinearMappedParametricQuantumCircuit.add_gate"])
    fingerprint.check(ctx, "packages/core/quri_parts/core/state/state.py", ["CircuitQuantumStateMixin.__init__"])
    fingerprint.check(ctx, "packages/core/quri_parts/core/state/state_parametric.py",
                      ["ParametricCircuitQuantumStateMixin.__init__"])
    fingerprint.check(ctx, "packages/qulacs/quri_parts/qulacs/operator/__init__.py", ["convert_operator"])
    fingerprint.check(ctx, "packages/core/quri_parts/core/measurement/__init__.py", ["CachedMeasurementFactory.__call__"])
    ctx.coq([], ["C20.v"])
    ctx.harness("corr_C20.py", kind="corr")
    ctx.harness("sweep_C20.py", timeout=2400)
