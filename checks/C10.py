"""C10 - Binding, mapping and transpiling parametric circuits commute."""
import os

from translate import parametric
from vlib import fingerprint


def run(ctx):
    ctx.trusted += [
        "Coq 8.16.1 kernel + vm_compute; axioms (Print Assumptions): history/refinement/binding theorems are closed under the "
        "global context; the bound-action theorems use the standard library's real-number axioms "
        "(ClassicalDedekindReals.sig_not_dec, sig_forall_dec) and FunctionalExtensionality.functional_extensionality_dep",
        "hand model coq/model/Parametric.v + ParamHistory.v of LinearMappedParametricQuantumCircuit / LinearParameterMapping "
        "(add_parameters, add_gate, add_Parametric*_gate with _check_param_exist, extend / combine with the fresh-parameter "
        "path, copies, bind_parameters) tied to the code by vm_compute correspondence over random construction histories "
        "(corr_C10.py) and AST fingerprints; parameter identity is modelled by an allocation counter",
        "translate/parametric.py (fail-closed ast translator of ParametricRX2RZHTranspiler / ParametricRY2RZHTranspiler into "
        "per-kind templates); the ParametricTranspiler wrapper and ParametricSequentialTranspiler are hand models "
        "(pt_go, composition) tied by the same correspondence",
        "documented gate matrices (coq/lib/Rsem.v); the action of PauliRotation is a Section variable (it is copied intact by "
        "the modelled transpilers)",
        "partial: ParametricPauliRotationDecomposeTranspiler, the Rust UnboundParametricQuantumCircuit (+, extend between "
        "unbound circuits), float rounding of the mapper and wrong-length bind vectors are decided by the numpy/reference "
        "sweep (sweep_C10.py) only",
    ]
    ctx.translate("parametric", parametric.run, os.path.join(ctx.work, "gen"), os.path.join(ctx.work, "ptemplates.json"))
    fingerprint.check(ctx, "packages/circuit/quri_parts/circuit/circuit_linear_mapped.py",
                      ["ImmutableLinearMappedParametricQuantumCircuit.bind_parameters",
                       "ImmutableLinearMappedParametricQuantumCircuit.combine",
                       "ImmutableLinearMappedParametricQuantumCircuit.get_mutable_copy",
                       "ImmutableLinearMappedParametricQuantumCircuit.__init__",
                       "LinearMappedParametricQuantumCircuit.add_parameters",
                       "LinearMappedParametricQuantumCircuit._check_param_exist",
                       "LinearMappedParametricQuantumCircuit.add_ParametricRX_gate",
                       "LinearMappedParametricQuantumCircuit.add_ParametricRY_gate",
                       "LinearMappedParametricQuantumCircuit.add_ParametricRZ_gate",
                       "LinearMappedParametricQuantumCircuit.add_ParametricPauliRotation_gate",
                       "LinearMappedParametricQuantumCircuit._add_parametric_gate",
                       "LinearMappedParametricQuantumCircuit.extend",
                       "LinearMappedParametricQuantumCircuit.freeze"])
    fingerprint.check(ctx, "packages/circuit/quri_parts/circuit/parameter_mapping.py",
                      ["LinearParameterMapping.__init__", "LinearParameterMapping._from_immutable_data",
                       "LinearParameterMapping.with_data_updated", "LinearParameterMapping.mapper",
                       "LinearParameterMapping.combine", "_freeze_map"])
    fingerprint.check(ctx, "packages/circuit/quri_parts/circuit/transpile/transpiler.py",
                      ["ParametricTranspiler.__call__", "ParametricSequentialTranspiler.__call__"])
    ctx.coq(["ptemplates.v"], ["C10.v", "C10_pauli.v"])
    ctx.harness("corr_C10.py", kind="corr")
    ctx.harness("sweep_C10.py", timeout=2400)
