"""C05 - Operator arithmetic is a faithful image of matrix arithmetic."""
import os

from translate import tables
from vlib import fingerprint


def run(ctx):
    ctx.trusted += [
        "Coq 8.16.1 kernel + vm_compute",
        "translate/tables.py for _pauli_products_map; hand model coq/model/Pauli.v (pauli_product) and "
        "coq/model/Operator.v (add_term, +=, scalar multiple, operator product) tied to the code by vm_compute "
        "correspondence on Gaussian-integer coefficients (corr_C05.py) and AST fingerprints",
        "documented Pauli matrices; numpy oracle (sweep_C05.py) for subtraction, division, dagger, commutator, sparse "
        "export, bsv/transition amplitudes, Trotter-Suzuki, label interning and string round trip",
        "partial: hermitian_conjugated, get_sparse_matrix, PauliLabel interning/str parsing have no "
        "theorem (sweep only); coefficients are exact ring elements in the theorems (binary64 rounding not modelled)",
    ]
    ctx.translate("tables", tables.run_c06, os.path.join(ctx.work, "gen"), os.path.join(ctx.work, "conjtab.json"))
    fingerprint.check(ctx, "packages/core/quri_parts/core/operator/pauli.py", ["pauli_product", "PauliLabel.__str__",
                                                                                "PauliLabel.__new__", "_parse_pauli_label_str"])
    fingerprint.check(ctx, "packages/core/quri_parts/core/operator/operator.py",
                      ["Operator.add_term", "Operator.__iadd__", "Operator.__isub__", "Operator.__mul__",
                       "Operator.__itruediv__", "Operator.hermitian_conjugated", "commutator"])
    ctx.coq(["conjtab.v"], ["C05.v"])
    ctx.harness("corr_C05.py", kind="corr")
    ctx.harness("sweep_C05.py")
