"""C05 - Operator arithmetic is a faithful image of matrix arithmetic."""
import os

from translate import tables
from vlib import fingerprint


def run(ctx):
    ctx.trusted += [
        "Coq 8.16.1 kernel + vm_compute",
        "translate/tables.py for _pauli_products_map; hand model coq/model/Pauli.v (pauli_product) and "
        "coq/model/Operator.v / OperatorExt.v / OperatorAdj.v (add_term, +=, -=, /=, scalar multiple, operator product, commutator, "
        "hermitian_conjugated) and coq/model/SparseExport.v (get_sparse_matrix: matrix list, scipy kron index rule, weighted sum) "
        "and coq/model/TransAmp.v (pauli_label_to_bsv, transition_amp_representation, transition_amp_comp_basis; corr_C05_tamp.py, "
        "registers up to 70 qubits) tied to the code by vm_compute "
        "correspondence on Gaussian-integer coefficients (corr_C05.py) and AST fingerprints",
        "documented Pauli matrices; scipy.sparse.kron index rule (A (x) B)[i, j] = A[i // 2, j // 2] B[i % 2, j % 2] as modelled; "
        "numpy oracle (sweep_C05.py) also for "
        "Trotter-Suzuki, label interning and string round trip",
        "coq/model/LabelString.v: character-level model of PauliLabel.__str__ / _parse_pauli_label_str (ASCII white space and digits; "
        "Python's re / str.split / int contracts as modelled), tied by corr_C05_str.py; coq/model/Intern.v: the intern table of PauliLabel.__new__ as a "
        "table keyed by the string form with entries vanishing at any time (weak references; CPython frees a label when its last "
        "reference goes), run against the real constructors on random histories by corr_C05_intern.py",
        "partial: the sparse formats other than the dense view; non-ASCII white space / digits in label strings; coefficients are exact ring elements in the theorems (binary64 rounding not modelled)",
    ]
    ctx.translate("tables", tables.run_c06, os.path.join(ctx.work, "gen"), os.path.join(ctx.work, "conjtab.json"))
    fingerprint.check(ctx, "packages/core/quri_parts/core/operator/pauli.py", ["pauli_product", "PauliLabel.__str__",
                                                                                "PauliLabel.__new__", "_parse_pauli_label_str"])
    fingerprint.check(ctx, "packages/core/quri_parts/core/operator/operator.py",
                      ["Operator.add_term", "Operator.__iadd__", "Operator.__isub__", "Operator.__mul__",
                       "Operator.__itruediv__", "Operator.hermitian_conjugated", "commutator"])
    fingerprint.check(ctx, "packages/core/quri_parts/core/operator/sparse.py",
                      ["_convert_pauli_label_to_sparse", "_convert_operator_to_sparse", "get_sparse_matrix"])
    fingerprint.check(ctx, "packages/core/quri_parts/core/operator/representation/__init__.py",
                      ["transition_amp_representation", "transition_amp_comp_basis"])
    fingerprint.check(ctx, "packages/core/quri_parts/core/utils/bit.py", ["parity_sign_of_bits"])
    fingerprint.check(ctx, "packages/core/quri_parts/core/operator/representation/bsf.py", ["pauli_label_to_bsv"])
    ctx.coq(["conjtab.v"], ["C05.v"])
    ctx.harness("corr_C05.py", kind="corr")
    ctx.harness("corr_C05_export.py", kind="corr")
    ctx.harness("corr_C05_tamp.py", kind="corr")
    ctx.harness("corr_C05_str.py", kind="corr")
    ctx.harness("corr_C05_intern.py", kind="corr")
    ctx.harness("sweep_C05.py")
