"""C02 - Gate-set conversion delivers only the requested gates."""
import os

from translate import pipelines, templates
from vlib import fingerprint


def run(ctx):
    ctx.trusted += [
        "Coq 8.16.1 kernel + vm_compute",
        "translate/pipelines.py: name-level summaries of every pass (over-approximation read off the source) and the "
        "preset pipelines; validated per pass against the real passes by sweep_C02.py",
        "translate/templates.py for the qubit discipline of templates",
        "hand model gsc_call of GateSetConversionTranspiler/RotationConversionTranspiler.__call__ + _validate, tied by "
        "AST fingerprints and the sweep with random target sets",
        "partial: the name-level run relation (every output name stems from some input gate) is an assumption about "
        "pass bodies validated by correspondence, not derived",
    ]
    ctx.translate("templates", templates.run, os.path.join(ctx.work, "gen"), os.path.join(ctx.work, "templates.json"))
    ctx.translate("pipes", pipelines.emit, os.path.join(ctx.work, "gen"), os.path.join(ctx.work, "pipes.json"))
    fingerprint.check(ctx, "packages/circuit/quri_parts/circuit/transpile/gateset.py",
                      ["GateSetConversionTranspiler.__call__", "GateSetConversionTranspiler._validate",
                       "RotationConversionTranspiler.__call__", "RotationConversionTranspiler._validate"])
    ctx.coq(["templates.v", "pipes.v"], ["C02.v"])
    ctx.harness("sweep_C02.py")
