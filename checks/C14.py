"""C14 - Electron-integral transformations preserve energies."""
from vlib import fingerprint

NR = "packages/chem/quri_parts/chem/mol/non_relativistic_models.py"
NR_FUNCS = ["AO1eIntArray.to_spatial_mo1int", "AO2eIntArray.to_spatial_mo2int", "get_effective_active_space_core_energy",
            "get_effective_active_space_1e_integrals", "get_effective_active_space_2e_integrals",
            "spatial_mo_1e_int_to_spin_mo_1e_int", "spatial_mo_2e_int_to_spin_mo_2e_int", "to_spin_orbital_integrals",
            "spatial_mo_eint_set_to_spin_mo_eint_set", "get_active_space_spatial_integrals_from_mo_eint"]


def run(ctx):
    ctx.trusted += [
        "Coq 8.16.1 kernel; axioms (Print Assumptions): the standard library's real-number axioms "
        "(ClassicalDedekindReals.sig_forall_dec, sig_not_dec) and FunctionalExtensionality.functional_extensionality_dep; "
        "frozen_core_and_active_space_are_disjoint is closed under the global context",
        "hand model coq/model/Integrals.v (arrays as index functions; effective core energy, effective 1e/2e integrals, "
        "spin expansion, index selection, the written-out transpose/tensordot chain of to_spatial_mo2int), tied to the code "
        "by exact vm_compute correspondence on integer arrays (corr_C14.py) and AST fingerprints",
        "the Slater-Condon energy of a determinant under H = c + sum h a+a + 1/2 sum g a+a+aa (E2) is the specification",
        "partial: complex orbital coefficients, invariance of spectra under orbital rotations, the PySCF-backed path, the "
        "assembly of the fermionic / qubit Hamiltonian (OpenFermion) and sector spectra are decided by the numpy sweep "
        "(sweep_C14.py) only",
    ]
    fingerprint.check(ctx, NR, NR_FUNCS)
    fingerprint.check(ctx, "packages/chem/quri_parts/chem/mol/active_space.py",
                      ["get_core_and_active_orbital_indices", "convert_to_spin_orbital_indices"])
    fingerprint.check(ctx, "packages/openfermion/quri_parts/openfermion/mol/hamiltonian.py",
                      ["get_fermionic_hamiltonian", "operator_from_of_fermionic_op", "get_qubit_mapped_hamiltonian"])
    ctx.coq([], ["C14.v"])
    ctx.harness("corr_C14.py", kind="corr")
    ctx.harness("sweep_C14.py", timeout=2400)
