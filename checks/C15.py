"""C15 - Symmetry-preserving ansatz circuits conserve what they promise."""
import os

from translate import gadgets
from vlib import fingerprint


def run(ctx):
    ctx.trusted += [
        "Coq 8.16.1 kernel + vm_compute; axioms (Print Assumptions): the standard library's real-number axioms "
        "(ClassicalDedekindReals.sig_not_dec, sig_forall_dec) and FunctionalExtensionality.functional_extensionality_dep",
        "translate/gadgets.py + harness/trace_C15.py + harness/blocks_C15.py: the block templates are regenerated on every run "
        "by EXECUTING the gadget functions of /repo (A gate, SO(4) entangler, single/double excitation, orbital rotation, "
        "U1/U2 exchange gates, Q gates) on a real LinearMappedParametricQuantumCircuit for every ordering of their qubit "
        "arguments and reading the gate list back; angle variables are rescaled to integer coefficients",
        "the loop structure of the ansatz classes (layers, entangler maps, excitation lists) is not modelled: the theorems hold "
        "for ANY sequence of blocks, and corr_C15.py checks that every real circuit is such a sequence (and, for the "
        "S_z-conserving classes, that each block sits on a verified spin pattern)",
        "documented gate matrices (coq/lib/Rsem.v)",
        "fixed PauliRotation gates inside a gadget (the Rxx gates of Z2SymmetryPreservingReal) are replaced, in the traced block "
        "and in the real circuits that are segmented, by what the repository's PauliRotationDecomposeTranspiler makes of them; "
        "that decomposition is modelled and proved for strings of any length in C01 (coq/model/PauliRot.v)",
        "partial: TrotterUCCSD and KUpCCGSD (Pauli rotations from OpenFermion) and total-spin claims are decided by the dense "
        "numpy sweep (sweep_C15.py) only",
    ]
    ctx.translate("gadgets", gadgets.run, os.path.join(ctx.work, "gen"), os.path.join(ctx.work, "blocks.json"))
    fingerprint.check(ctx, "packages/algo/quri_parts/algo/ansatz/symmetry_preserving.py",
                      ["SymmetryPreserving.__init__"])
    fingerprint.check(ctx, "packages/algo/quri_parts/algo/ansatz/two_local.py", ["TwoLocal.__init__"])
    ctx.coq(["blocks.v"], ["C15.v"])
    ctx.harness("corr_C15.py", kind="corr")
    ctx.harness("sweep_C15.py", timeout=2400)
