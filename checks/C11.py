"""C11 - Concurrent execution is equivalent to sequential execution."""
from vlib import fingerprint


def run(ctx):
    ctx.trusted += [
        "Coq 8.16.1 kernel (theorems closed under the global context)",
        "hand model coq/model/Concurrent.v of execute_concurrently (floor-division chunk sizes, prefix-sum slices), "
        "tied to the code by exhaustive vm_compute correspondence for all n<=40, c<=12 with a recording executor "
        "(sweep_C11.py) and an AST fingerprint",
        "contract: Executor.map returns results in submission order; batch functions are element-wise "
        "(list homomorphisms) - validated per entry point by the sweep against the sequential path",
        "partial: real OS thread/process scheduling, CPython and Qulacs internals are atomic-step oracles; the "
        "interleaving theorem is about commuting steps, its footprint hypothesis (workers copy what they mutate) is "
        "checked by the deterministic line-granular scheduler and the switch-interval stress of the sweep, not proved",
    ]
    fingerprint.check(ctx, "packages/core/quri_parts/core/utils/concurrent.py", ["execute_concurrently"])
    ctx.coq([], ["C11.v"])
    ctx.harness("sweep_C11.py", timeout=1500)
