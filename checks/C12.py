"""C12 - Inverse circuits undo the circuit and folding leaves it unchanged."""
import os
import re

from translate import inverse
from vlib import fingerprint
from vlib.common import load_known


def run(ctx):
    ctx.trusted += [
        "Coq 8.16.1 kernel + vm_compute",
        "translate/inverse.py (fail-closed symbolic evaluation of inverse_gate per gate kind), validated against the "
        "real inverse_gate by sweep_C12.py",
        "hand model of scaling_circuit_folding (coq/model/Inverse.v fold_with) tied by vm_compute correspondence",
        "documented gate matrices; numpy oracle",
        "the PauliRotation and UnitaryMatrix branches of inverse_gate are extracted too (angle scale; conjugated / transposed "
        "flags of the matrix chain np.array(...).conj().T) and validated against the real function; their theorems "
        "(pauli_rotation_inverse_undoes, unitary_matrix_inverse_undoes) are about those regenerated data",
        "coq/model/PolyFit.v: numpy's Polynomial.fit(...).convert().coef enters noiseless_polynomial_extrapolation_returns_the_exact_value "
        "through its contract (<= order + 1 coefficients, low to high, least-squares minimiser), validated against polynomial_fitting by "
        "corr_C12_fit.py; fingerprints of polynomial_fitting, create_polynomial_extrapolate, richardson_extrapolation, zne",
        "partial: the residual-count arithmetic in binary64, the numerics of the exponential ZNE extrapolation methods (scipy curve_fit; all "
        "of them are run on noiseless data by the sweep) and qsub Inverse (see C19) are decided by the sweep",
    ]
    known = load_known("C12")
    bad = sorted({m.group(1) for k in known for m in [re.match(r"sweep:inverse_gate:(\w+)$", k)] if m})
    ctx.translate("inverse", inverse.run, os.path.join(ctx.work, "gen"), os.path.join(ctx.work, "invtab.json"), bad)
    ctx.coq(["invtab.v"], ["C12.v", "C12_refuted.v"], optional=("C12_refuted.v",))
    fingerprint.check(ctx, "packages/algo/quri_parts/algo/utils/fitting.py", ["polynomial_fitting"])
    fingerprint.check(ctx, "packages/algo/quri_parts/algo/mitigation/zne/zne.py",
                      ["create_polynomial_extrapolate", "richardson_extrapolation", "zne"])
    ctx.harness("corr_C12_fit.py", kind="corr")
    ctx.harness("sweep_C12.py")
