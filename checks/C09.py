"""C09 - Parameter-shift gradients and Hessians equal the analytic derivatives."""
from vlib import fingerprint


def run(ctx):
    ctx.trusted += [
        "Coq 8.16.1 kernel; axioms (Print Assumptions): the standard library's classical real-number axioms "
        "(ClassicalDedekindReals.sig_not_dec, sig_forall_dec) and FunctionalExtensionality.functional_extensionality_dep",
        "hand model coq/model/ParamShift.v of ShiftedParameters._get_derivative / get_shifted_parameters_and_coef and of the "
        "recombination sum(coef * estimate); tied to the code by exact vm_compute correspondence over rational "
        "coefficients (corr_C09.py: first and second order shift objects, derivative mappings, shifted vectors) and AST "
        "fingerprints of parameter_shift.py, gradient.py, hessian.py, parameter_mapping.py",
        "modelled, not verified: that the expectation value of a circuit of e^{-i phi G/2} gates (G^2 = I) is of sinusoidal "
        "form (type tp) in the raw angles; the exact estimator; float arithmetic. These are exercised on every run by "
        "the numpy sweep (sweep_C09.py) against generator-insertion derivatives, including the numerical gradient",
    ]
    fingerprint.check(ctx, "packages/circuit/quri_parts/circuit/parameter_shift.py",
                      ["_get_linear_deriv", "ShiftedParameters._get_derivative", "ShiftedParameters.get_derivatives",
                       "ShiftedParameters.get_shifted_parameters_and_coef"])
    fingerprint.check(ctx, "packages/circuit/quri_parts/circuit/parameter_mapping.py",
                      ["LinearParameterMapping.get_derivatives", "LinearParameterMapping.mapper"])
    fingerprint.check(ctx, "packages/core/quri_parts/core/estimator/gradient.py",
                      ["parameter_shift_gradient_estimates", "numerical_gradient_estimates"])
    fingerprint.check(ctx, "packages/core/quri_parts/core/estimator/hessian.py", ["parameter_shift_hessian_estimates"])
    ctx.coq([], ["C09.v"])
    ctx.harness("corr_C09.py", kind="corr")
    ctx.harness("sweep_C09.py", timeout=2400)
