"""C19 - Structured (qsub) compilation preserves meaning and resource counts."""
from vlib import fingerprint


def run(ctx):
    ctx.trusted += [
        "Coq 8.16.1 kernel + vm_compute (all C19 theorems are closed under the global context)",
        "hand model coq/model/Qsub.v of the machine level: table of sub-routines with calls to later entries, hierarchical "
        "evaluation with the stack allocator (HierarchicalReuseAllocator, Evaluator._call_sub, QURIPartsEvaluatorHooks qubit "
        "maps, expand._expand), memoising GateCount / AuxQubitCount evaluator hooks; tied to the code by vm_compute "
        "correspondence over random linked programs (corr_C19.py) and AST fingerprints",
        "partial: compile/link front end (SubBuilder, resolvers, transpiler hooks), registers, the order of aux qubits of an "
        "expanded sub (tuple(set())), and the Inverse / Controlled / MultiControlled "
        "library constructions are decided by the reference-interpreter + numpy sweep (sweep_C19.py) only",
    ]
    fingerprint.check(ctx, "packages/qsub/quri_parts/qsub/allocate.py",
                      ["HierarchicalReuseAllocator.allocate", "HierarchicalReuseAllocator.allocate_map",
                       "HierarchicalReuseAllocator.free_last"])
    fingerprint.check(ctx, "packages/qsub/quri_parts/qsub/evaluate.py", ["Evaluator.run", "Evaluator._call_sub"])
    fingerprint.check(ctx, "packages/qsub/quri_parts/qsub/expand.py", ["map_qubits", "_expand", "expand", "full_expand"])
    fingerprint.check(ctx, "packages/qsub/quri_parts/qsub/eval/quriparts.py",
                      ["QURIPartsEvaluatorHooks._update_qubit_map", "QURIPartsEvaluatorHooks.enter_sub",
                       "QURIPartsEvaluatorHooks.exit_sub", "QURIPartsEvaluatorHooks.primitive"])
    fingerprint.check(ctx, "packages/qsub/quri_parts/qsub/eval/gatecount.py",
                      ["GateCountEvaluatorHooks._merge_cache", "GateCountEvaluatorHooks.enter_sub",
                       "GateCountEvaluatorHooks.exit_sub", "GateCountEvaluatorHooks.primitive"])
    fingerprint.check(ctx, "packages/qsub/quri_parts/qsub/eval/qubitcount.py",
                      ["AuxQubitCountEvaluatorHooks._merge_cache", "AuxQubitCountEvaluatorHooks.enter_sub",
                       "AuxQubitCountEvaluatorHooks.exit_sub"])
    ctx.coq([], ["C19.v"])
    ctx.harness("corr_C19.py", kind="corr")
    ctx.harness("sweep_C19.py", timeout=2400)
