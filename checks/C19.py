"""C19 - Structured (qsub) compilation preserves meaning and resource counts."""
from translate import qsub_inverse
from vlib import fingerprint
from vlib.common import REPO
import os


def run(ctx):
    ctx.trusted += [
        "Coq 8.16.1 kernel + vm_compute (all C19 theorems are closed under the global context)",
        "hand model coq/model/Qsub.v of the machine level: table of sub-routines with calls to later entries, hierarchical "
        "evaluation with the stack allocator (HierarchicalReuseAllocator, Evaluator._call_sub, QURIPartsEvaluatorHooks qubit "
        "maps, expand._expand), memoising GateCount / AuxQubitCount evaluator hooks; tied to the code by vm_compute "
        "correspondence over random linked programs (corr_C19.py) and AST fingerprints",
        "translate/qsub_inverse.py (fail-closed AST reading of lib/std/inverse.py, the Op definitions of lib/std and the gate "
        "mappings of eval/quriparts.py): structure of inverse_sub_resolver, table (constant primitive -> op its Inverse resolves "
        "to), rotation angle factor; coq/model/QsubInverse.v / QsubPrim.v and coq/lib/LocalScaled.v (exact comparison of gate "
        "lists whose 1/sqrt2 exponents differ); the resolver's output is compared with the model on random primitive "
        "sub-routines (corr_C19_inverse.py); documented matrices of the constant gates, RX/RY/RZ = exp(-i theta P / 2)",
        "partial: compile/link front end (SubBuilder, transpiler hooks), registers, the order of aux qubits of an "
        "expanded sub (tuple(set())), the resolvers of Controlled / MultiControlled (their decompositions; five are known "
        "findings) are decided by the reference-interpreter + numpy sweep (sweep_C19.py) only",
    ]
    fingerprint.check(ctx, "packages/qsub/quri_parts/qsub/allocate.py",
                      ["HierarchicalReuseAllocator.allocate", "HierarchicalReuseAllocator.allocate_map",
                       "HierarchicalReuseAllocator.free_last"])
    fingerprint.check(ctx, "packages/qsub/quri_parts/qsub/evaluate.py", ["Evaluator.run", "Evaluator._call_sub"])
    fingerprint.check(ctx, "packages/qsub/quri_parts/qsub/expand.py", ["map_qubits", "_expand", "expand", "full_expand"])
    fingerprint.check(ctx, "packages/qsub/quri_parts/qsub/eval/quriparts.py",
                      ["QURIPartsEvaluatorHooks._update_qubit_map", "QURIPartsEvaluatorHooks.enter_sub",
                       "QURIPartsEvaluatorHooks.exit_sub", "QURIPartsEvaluatorHooks.primitive"])
    fingerprint.check(ctx, "packages/qsub/quri_parts/qsub/eval/gatecount.py",
                      ["GateCountEvaluatorHooks._merge_cache", "GateCountEvaluatorHooks.enter_sub",
                       "GateCountEvaluatorHooks.exit_sub", "GateCountEvaluatorHooks.primitive"])
    fingerprint.check(ctx, "packages/qsub/quri_parts/qsub/eval/qubitcount.py",
                      ["AuxQubitCountEvaluatorHooks._merge_cache", "AuxQubitCountEvaluatorHooks.enter_sub",
                       "AuxQubitCountEvaluatorHooks.exit_sub"])
    ctx.translate("qsub_inverse", qsub_inverse.run, REPO, os.path.join(ctx.work, "gen"), os.path.join(ctx.work, "qsubinv.json"))
    ctx.coq(["qsubinv.v"], ["C19.v", "C19_inv.v"])
    ctx.harness("corr_C19.py", kind="corr")
    ctx.harness("corr_C19_inverse.py", kind="corr")
    ctx.harness("sweep_C19.py", timeout=2400)
