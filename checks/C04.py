"""C04 - Exact estimators return the true expectation value."""
from vlib import fingerprint


def run(ctx):
    ctx.trusted += [
        "Coq 8.16.1 kernel (theorems closed under the global context)",
        "hand model coq/model/Estimate.v of the batch dispatch (core create_concurrent_estimator_from_estimator and the "
        "Qulacs _concurrent_estimate), of the lifting constructors and of the content-keyed operator cache; tied to the "
        "code by exhaustive vm_compute correspondence over batch shapes (corr_C04.py) and AST fingerprints",
        "the simulator (Qulacs/Stim state evolution and expectation value) is a Section variable; its contract "
        "<psi|O|psi> is validated on every run by the numpy sweep over every estimator variant (sweep_C04.py)",
        "partial: numeric values of all estimator variants (vector, density matrix, Stim, sparse, general) are decided by "
        "the sweep relative to the numpy oracle, not by a theorem",
    ]
    fingerprint.check(ctx, "packages/core/quri_parts/core/estimator/__init__.py",
                      ["create_parametric_estimator", "create_concurrent_parametric_estimator",
                       "create_concurrent_parametric_estimator_from_concurrent_estimator",
                       "create_concurrent_estimator_from_estimator", "create_estimator_from_concurrent_estimator"])
    fingerprint.check(ctx, "packages/qulacs/quri_parts/qulacs/estimator.py",
                      ["_concurrent_estimate", "_sequential_estimate", "_sequential_estimate_single_state", "_estimate"])
    fingerprint.check(ctx, "packages/qulacs/quri_parts/qulacs/operator/__init__.py", ["convert_operator", "_qulacs_pauli_str"])
    ctx.coq([], ["C04.v"])
    ctx.harness("corr_C04.py", kind="corr")
    ctx.harness("sweep_C04.py", timeout=1500)
