"""C16 - Computational-basis state calculus matches the state vector."""
from vlib import fingerprint


def run(ctx):
    ctx.trusted += [
        "Coq 8.16.1 kernel + vm_compute",
        "hand model coq/model/CompBasis.v of _add_single_pauli/_add_pauli (exact: N bit operations, Z phase), tied to "
        "the code by vm_compute correspondence (corr_C16.py) and AST fingerprints",
        "documented Pauli matrices (coq/lib/Gates.v)",
        "hand model coq/model/PrepCircuit.v of ComputationalBasisState.circuit (X on every set bit below n_qubits), tied by vm_compute "
        "correspondence on registers up to 130 qubits; the shape of the general state returned for chains with a non-Pauli gate "
        "(circuit + gates on the same register) is checked on the real objects",
        "partial: the gates of a mixed chain are arbitrary operators in mixed_chain_state (their matrices are C01 / documented-matrix "
        "territory) and the derivation histories are decided by the dense numpy sweep; lowest_bit_index's 64-bit limit is a stated precondition",
    ]
    fingerprint.check(ctx, "packages/core/quri_parts/core/state/comp_basis.py",
                      ["_add_single_pauli", "_add_pauli", "ComputationalBasisState.circuit", "ComputationalBasisState.with_gates_applied",
                       "ComputationalBasisState.with_pauli_gate_applied", "comp_basis_superposition"])
    fingerprint.check(ctx, "packages/core/quri_parts/core/utils/bit.py", ["get_bit", "lowest_bit_index", "different_bit_index"])
    ctx.coq([], ["C16.v"])
    ctx.harness("corr_C16.py", kind="corr")
