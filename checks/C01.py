"""C01 - Transpilation preserves the action of the circuit."""
import os

from translate import templates
from vlib import fingerprint


def run(ctx):
    ctx.trusted += [
        "Coq 8.16.1 kernel + vm_compute (no native_compute)",
        "translate/templates.py (fail-closed ast translator of GateKindDecomposer templates), validated by corr_C01.py",
        "documented gate matrices in gates.py as the specification (coq/lib/Rsem.v)",
        "numpy oracle harness/oracle.py for the failing-input search; binary64 rounding not modelled",
        "hand model coq/model/Period.v of NormalizeRotationTranspiler._normalize (real mod), tied by corr_C01.py and an AST "
        "fingerprint",
        "partial: KAK/SU(2) numeric bodies, Pauli-string decomposers, epsilon-snapping passes, Quantinuum/IonQ native "
        "transpilers are covered by the sweep only",
    ]
    ctx.translate("templates", templates.run, os.path.join(ctx.work, "gen"),
                  os.path.join(ctx.work, "templates.json"))
    ctx.translate("fusers", templates.run_fusers, os.path.join(ctx.work, "gen"), os.path.join(ctx.work, "fusers.json"))
    fingerprint.check(ctx, "packages/circuit/quri_parts/circuit/transpile/fuse.py",
                      ["NormalizeRotationTranspiler._normalize", "NormalizeRotationTranspiler.decompose"])
    ctx.coq(["templates.v", "fusers.v"], ["C01.v"])
    if os.path.exists(os.path.join(ctx.work, "templates.json")):
        ctx.harness("corr_C01.py", kind="corr")
    ctx.harness("sweep_C01.py")
