"""C01 - Transpilation preserves the action of the circuit."""
import os

from translate import native, snaps, templates
from vlib import fingerprint
from vlib.common import load_known


def run(ctx):
    ctx.trusted += [
        "Coq 8.16.1 kernel + vm_compute (no native_compute)",
        "translate/templates.py (fail-closed ast translator of GateKindDecomposer templates), validated by corr_C01.py",
        "documented gate matrices in gates.py as the specification (coq/lib/Rsem.v)",
        "numpy oracle harness/oracle.py for the failing-input search; binary64 rounding not modelled",
        "hand model coq/model/Period.v of NormalizeRotationTranspiler._normalize (real mod), tied by corr_C01.py and an AST "
        "fingerprint",
        "translate/templates.py:run_native + translate/native.py (fail-closed ast translators of the Quantinuum/IonQ native "
        "transpilers: templates, U1qNormalize branches, CNOTRZ2RZZ window, IonQ virtual-Z rows), validated by native_C01.py; "
        "hand model coq/model/Native.v of the CNOTRZ2RZZ sliding window and of the IonQ frame bookkeeping (loop outline "
        "checked by the translator)",
        "documented native gate matrices (quri_parts.quantinuum/ionq.circuit.gates docstrings) as the specification; IonQ "
        "phases are turns (as the transpiler, the repo's tests and IonQ's API use them), MS(phi0, phi1) carries phi0 on its "
        "first target (IonQ's convention; the docstring matrix is written with the first target as the most significant bit); "
        "snapping tests `|theta - K| < epsilon` are idealised to theta = K (the documented epsilon)",
        "hand model coq/model/PauliRot.v of PauliRotationDecomposeTranspiler / rot_gates / PauliDecomposeTranspiler (strings "
        "of any length), run by vm_compute against decompose() (corr_C01.py) + AST fingerprints; translate/snaps.py "
        "(fail-closed translator of the RX/RY/RZ2Named and ZeroRotationElimination if-chains)",
        "partial: KAK/SU(2) numeric bodies (guarded by the decomposer's own output validation since fix 8e85f3f) are "
        "covered by the sweep only; snapping tests |theta - K| < epsilon are idealised to theta = K",
    ]
    ctx.translate("templates", templates.run, os.path.join(ctx.work, "gen"),
                  os.path.join(ctx.work, "templates.json"))
    ctx.translate("fusers", templates.run_fusers, os.path.join(ctx.work, "gen"), os.path.join(ctx.work, "fusers.json"))
    fingerprint.check(ctx, "packages/circuit/quri_parts/circuit/transpile/unitary_matrix_decomposer.py",
                      ["SingleQubitUnitaryMatrix2RYRZTranspiler.decompose"])
    fingerprint.check(ctx, "packages/circuit/quri_parts/circuit/transpile/fuse.py",
                      ["NormalizeRotationTranspiler._normalize", "NormalizeRotationTranspiler.decompose"])
    ctx.translate("native-templates", templates.run_native, os.path.join(ctx.work, "gen"),
                  os.path.join(ctx.work, "native.json"))
    known = load_known("C01")
    u1q_bad = sorted(k.split(":")[-1] for k in known if k.startswith("sweep:U1qNormalizeWithRZTranspiler:"))
    ctx.translate("native-passes", native.run, os.path.join(ctx.work, "gen"), os.path.join(ctx.work, "nativegen.json"),
                  u1q_bad)
    ctx.translate("snapping", snaps.run, os.path.join(ctx.work, "gen"), os.path.join(ctx.work, "snaps.json"))
    fingerprint.check(ctx, "packages/circuit/quri_parts/circuit/transpile/multi_pauli_decomposer.py",
                      ["PauliDecomposeTranspiler.decompose", "rot_gates", "PauliRotationDecomposeTranspiler.decompose",
                       "ParametricPauliRotationDecomposeTranspiler.add_decomposed_gates"])
    ctx.coq(["templates.v", "fusers.v", "native.v", "nativegen.v", "snaps.v"], ["C01.v", "C01_refuted.v"],
            optional=("C01_refuted.v",))
    if os.path.exists(os.path.join(ctx.work, "templates.json")):
        ctx.harness("corr_C01.py", kind="corr")
    ctx.harness("sweep_C01.py")
    ctx.harness("native_C01.py")
