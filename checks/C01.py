"""C01 - Transpilation preserves the action of the circuit."""
import os

from translate import templates


def run(ctx):
    ctx.trusted += [
        "Coq 8.16.1 kernel + vm_compute (no native_compute)",
        "translate/templates.py (fail-closed ast translator of GateKindDecomposer templates), validated by corr_C01.py",
        "documented gate matrices in gates.py as the specification (coq/lib/Rsem.v)",
        "numpy oracle harness/oracle.py for the failing-input search; binary64 rounding not modelled",
        "partial: KAK/SU(2) numeric bodies, Pauli-string decomposers, fusers, snapping passes, Quantinuum/IonQ native "
        "transpilers are covered by the sweep only",
    ]
    ctx.translate("templates", templates.run, os.path.join(ctx.work, "gen"),
                  os.path.join(ctx.work, "templates.json"))
    ctx.translate("fusers", templates.run_fusers, os.path.join(ctx.work, "gen"), os.path.join(ctx.work, "fusers.json"))
    ctx.coq(["templates.v", "fusers.v"], ["C01.v"])
    if os.path.exists(os.path.join(ctx.work, "templates.json")):
        ctx.harness("corr_C01.py", kind="corr")
    ctx.harness("sweep_C01.py")
