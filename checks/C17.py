"""C17 - Noise instructions describe physical channels."""
import os

from translate import kraus
from vlib import fingerprint


def run(ctx):
    ctx.trusted += [
        "Coq 8.16.1 kernel; nsatz/lra/nra over Coq.Reals",
        "translate/kraus.py (fail-closed ast translator of the closed-form Kraus families and of every factory's "
        "validation code), validated against the real factories on a grid by corr_C17.py",
        "hand transcription of the thermal-relaxation Choi matrix (coq/model/Noise.v, Section Thermal) + AST fingerprint "
        "of ThermalRelaxationNoise; the eigh-based square root is numerics covered by the sweep",
        "partial: the Rust side (GateNoiseInstruction, MeasurementNoise filters, Qulacs noise conversion) and user-supplied "
        "Kraus/probabilistic noise are decided by the density-matrix sweep; binary64 rounding (the max(0, .) clamp) is "
        "outside the real-number theorems",
    ]
    ctx.translate("kraus", kraus.emit, os.path.join(ctx.work, "gen"), os.path.join(ctx.work, "kraus.json"))
    fingerprint.check(ctx, "packages/circuit/quri_parts/circuit/noise/noise_instruction.py",
                      ["ThermalRelaxationNoise", "_check_valid_probability"])
    ctx.coq(["krausgen.v"], ["C17.v"])
    if os.path.exists(os.path.join(ctx.work, "kraus.json")):
        ctx.harness("corr_C17.py", kind="corr")
    ctx.harness("sweep_C17.py")
