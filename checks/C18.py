"""C18 - Qubit remapping and count un-mapping are mutually inverse."""
from vlib import fingerprint


def run(ctx):
    ctx.trusted += [
        "Coq 8.16.1 kernel + vm_compute",
        "hand model coq/model/Remap.v (exact N/Z arithmetic) of _create_reverse_map/_reverse_map_bits/"
        "_reverse_map_counts and of the relabelling done by QubitRemappingTranspiler, tied by vm_compute "
        "correspondence (corr_C18.py) and AST fingerprints",
        "executable model coq/model/RemapExec.v of QubitRemappingTranspiler (constructor check, dictionary lookups, KeyError -> "
        "ValueError path, register size; payload of a gate carried over untouched), run by vm_compute against the real class on "
        "mappings with / without duplicate targets, missing qubits, no entries (corr_C18.py `corr:remap_exec`)",
        "partial: the qiskit/braket wrappers (wrap_C18.py: braket LocalSimulator, "
        "qiskit utils with a fake job; qiskit.providers.backend.BackendV1 is absent from the installed qiskit and is "
        "replaced by a placeholder class for the import) are decided by the sweep",
    ]
    fingerprint.check(ctx, "packages/core/quri_parts/backend/qubit_mapping.py",
                      ["_create_reverse_map", "_reverse_map_bits", "_reverse_map_counts",
                       "BackendQubitMapping.unmap_sampling_counts"])
    fingerprint.check(ctx, "packages/circuit/quri_parts/circuit/transpile/qubit_remapping.py",
                      ["QubitRemappingTranspiler.__init__", "QubitRemappingTranspiler.__call__"])
    ctx.coq([], ["C18.v"])
    ctx.harness("corr_C18.py", kind="corr")
    ctx.harness("wrap_C18.py")
