"""C13 - Fermion-to-qubit mappings treat operators and states consistently."""
from vlib import fingerprint


def run(ctx):
    ctx.trusted += [
        "Coq 8.16.1 kernel + vm_compute (all C13 theorems are closed under the global context)",
        "hand models coq/model/GF2.v (BinaryArray as N, BinaryMatrix @ BinaryArray, Gauss-Jordan inverse() including the stale "
        "/ unbound pivot_row behaviour on singular matrices) and coq/model/Mapper.v (state_mapper, inv_state_mapper, "
        "number-operator read-back, JW / inverse-mapper filters, SCBK parity factor), tied to the code by vm_compute "
        "correspondence (corr_C13.py) and AST fingerprints",
        "OpenFermion (jordan_wigner, bravyi_kitaev, bravyi_kitaev_tree, reorder, edit_hamiltonian_for_spin, remove_indices) is "
        "outside the model: the matrix M of the mapped number operators and their signs are parameters of the theorems, read "
        "from the real mapping objects in the correspondence; the read-back of the really mapped number operators is "
        "checked on every instance",
        "completeness of the elimination (coq/model/GF2Complete.v: gj_complete, inverse_total) is proved for every square matrix "
        "with trivial kernel, so the round-trip theorems hold for every invertible number-operator matrix; that the JW/BK "
        "matrices read from the real mapping objects are invertible is evaluated per instance (gj_check, n up to 10/12) and, "
        "size-independently, follows from their shape: coq/model/GF2Tri.v proves that every unit lower-triangular matrix has trivial "
        "kernel (mappers_round_trip_at_every_size); that the JW / BK number-operator matrices have that shape is OpenFermion's "
        "behaviour, read from the real objects up to 65 (quick) / 100 (thorough) spin orbitals and decided by vm_compute (unit_lowerb)",
        "partial: the round-trip theorems need n_qubits = n; "
        "SCBK (two dropped qubits, singular padded matrix) round trips and all matrix elements of mapped operators vs Fock "
        "space are decided by the sweep (sweep_C13.py) and the correspondence, not by a theorem",
    ]
    fingerprint.check(ctx, "packages/core/quri_parts/core/utils/binary_field.py",
                      ["BinaryArray.__init__", "BinaryArray.__getitem__", "BinaryArray.__setitem__", "BinaryArray.__iadd__",
                       "BinaryArray.__imul__", "BinaryArray.__matmul__", "BinaryMatrix.__matmul__", "BinaryMatrix.__setitem__",
                       "hstack", "inverse"])
    fingerprint.check(ctx, "packages/openfermion/quri_parts/openfermion/transforms/__init__.py",
                      ["_inv_state_transformation_matrix", "OpenFermionQubitMapping.__init__",
                       "OpenFermionQubitMapping.state_mapper", "OpenFermionQubitMapping.inv_state_mapper",
                       "OpenFermionQubitMapping._augment_dropped_bits", "_get_scbk_parity_factor",
                       "OpenFermionSymmetryConservingBravyiKitaev.of_operator_mapper",
                       "OpenFermionSymmetryConservingBravyiKitaev._augment_dropped_bits"])
    fingerprint.check(ctx, "packages/openfermion/quri_parts/openfermion/utils/post_selection_filters.py",
                      ["create_jw_electron_number_post_selection_filter_fn", "create_bk_electron_number_post_selection_filter_fn",
                       "create_scbk_electron_number_post_selection_filter_fn"])
    fingerprint.check(ctx, "packages/chem/quri_parts/chem/utils/spin.py", ["occupation_state_sz"])
    ctx.coq([], ["C13.v"])
    ctx.harness("corr_C13.py", kind="corr")
    ctx.harness("sweep_C13.py", timeout=2400)
