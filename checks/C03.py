"""C03 - Backend circuit conversion preserves circuit semantics."""
import os

from translate import adapters, braket_adapter, cirq_adapter, qiskit_adapter
from vlib import fingerprint


def run(ctx):
    ctx.trusted += [
        "Coq 8.16.1 kernel + vm_compute",
        "translate/adapters.py: fail-closed symbolic evaluation of the Qulacs convert_gate per gate kind, validated "
        "against the real convert_gate by corr_C03.py",
        "CONTRACT (not an axiom; data checked on every run against the installed Qulacs): every qulacs.gate "
        "constructor equals the documented library matrix of its counterpart, RX/RY/RZ with the opposite angle sign",
        "translate/cirq_adapter.py: fail-closed symbolic evaluation of the Cirq convert_gate per gate kind and entry-wise "
        "translation of the numpy matrices returned by the converter's own U1/U2/U3 gate classes; validated by "
        "corr_C03_cirq.py; CONTRACT: each Cirq expression of the tables (I, X**0.5, rx, CNOT ...) has the documented matrix "
        "of its library counterpart, Cirq's qubit order inside a gate is big-endian (checked against cirq.unitary each run)",
        "translate/braket_adapter.py: the same for the Braket convert_gate (gate-class tables, the U-gate lambdas, the "
        "literal SqrtY/SqrtYdag matrices); validated by corr_C03_braket.py; CONTRACT: Gate.V = SqrtX, Gate.Si = Sdag, "
        "Gate.U = U3, PhaseShift = U1, CNot/CZ/CCNot controls first, big-endian inside a gate (checked against to_matrix())",
        "translate/qiskit_adapter.py: the same for the Qiskit convert_gate / convert_circuit (qargs = controls then targets); "
        "validated by corr_C03_qiskit.py; CONTRACT: SXGate = SqrtX, PhaseGate = U1, UGate = U3, CXGate/CZGate/CCXGate controls "
        "first, to_matrix() little-endian in the gate's own qubit list",
        "partial: only the Python paths of the Qulacs, Cirq, Braket and Qiskit forward adapters have theorems; the Rust "
        "convert_circuit, parametric and compiled circuits, UnitaryMatrix/Pauli/PauliRotation (the set transpilers in front of "
        "the converters are covered by C01), the reverse conversions and the tket, Stim and OpenQASM adapters in "
        "both directions are decided by the backend-simulator sweep (sweep_C03.py)",
    ]
    ctx.translate("qulacs_adapter", adapters.emit, os.path.join(ctx.work, "gen"), os.path.join(ctx.work, "qulacsconv.json"))
    fingerprint.check(ctx, "packages/qulacs/quri_parts/qulacs/circuit/__init__.py", ["convert_parametric_circuit"])
    ctx.translate("cirq_adapter", cirq_adapter.emit, os.path.join(ctx.work, "gen"), os.path.join(ctx.work, "cirqconv.json"))
    ctx.translate("braket_adapter", braket_adapter.emit, os.path.join(ctx.work, "gen"), os.path.join(ctx.work, "braketconv.json"))
    ctx.translate("qiskit_adapter", qiskit_adapter.emit, os.path.join(ctx.work, "gen"), os.path.join(ctx.work, "qiskitconv.json"))
    ctx.coq(["qulacsconv.v", "cirqconv.v", "braketconv.v", "qiskitconv.v"], ["C03.v"])
    if os.path.exists(os.path.join(ctx.work, "qulacsconv.json")):
        ctx.harness("corr_C03.py", kind="corr")
    if os.path.exists(os.path.join(ctx.work, "cirqconv.json")):
        ctx.harness("corr_C03_cirq.py", kind="corr")
    if os.path.exists(os.path.join(ctx.work, "braketconv.json")):
        ctx.harness("corr_C03_braket.py", kind="corr")
    if os.path.exists(os.path.join(ctx.work, "qiskitconv.json")):
        ctx.harness("corr_C03_qiskit.py", kind="corr")
    ctx.harness("sweep_C03.py", timeout=1500)
