"""C03 - Backend circuit conversion preserves circuit semantics."""
import os

from translate import adapters
from vlib import fingerprint


def run(ctx):
    ctx.trusted += [
        "Coq 8.16.1 kernel + vm_compute",
        "translate/adapters.py: fail-closed symbolic evaluation of the Qulacs convert_gate per gate kind, validated "
        "against the real convert_gate by corr_C03.py",
        "CONTRACT (not an axiom; data checked on every run against the installed Qulacs): every qulacs.gate "
        "constructor equals the documented library matrix of its counterpart, RX/RY/RZ with the opposite angle sign",
        "partial: only the Python path of the Qulacs adapter has theorems; the Rust convert_circuit, parametric and "
        "compiled circuits, UnitaryMatrix/Pauli/PauliRotation, and the Qiskit, Cirq, Braket, tket, Stim and OpenQASM "
        "adapters in both directions are decided by the backend-simulator sweep (sweep_C03.py)",
    ]
    ctx.translate("qulacs_adapter", adapters.emit, os.path.join(ctx.work, "gen"), os.path.join(ctx.work, "qulacsconv.json"))
    fingerprint.check(ctx, "packages/qulacs/quri_parts/qulacs/circuit/__init__.py", ["convert_parametric_circuit"])
    ctx.coq(["qulacsconv.v"], ["C03.v"])
    if os.path.exists(os.path.join(ctx.work, "qulacsconv.json")):
        ctx.harness("corr_C03.py", kind="corr")
    ctx.harness("sweep_C03.py", timeout=1500)
