"""C03 - Backend circuit conversion preserves circuit semantics."""
import os

from translate import (adapters, braket_adapter, braket_reverse, cirq_adapter, qasm_adapter, qiskit_adapter, qulacs_reverse, reverse_adapters,
                       stim_adapter, tket_adapter)
from vlib import fingerprint


def run(ctx):
    ctx.trusted += [
        "Coq 8.16.1 kernel + vm_compute",
        "translate/adapters.py: fail-closed symbolic evaluation of the Qulacs convert_gate per gate kind, validated "
        "against the real convert_gate by corr_C03.py",
        "CONTRACT (not an axiom; data checked on every run against the installed Qulacs): every qulacs.gate "
        "constructor equals the documented library matrix of its counterpart, RX/RY/RZ with the opposite angle sign",
        "translate/cirq_adapter.py: fail-closed symbolic evaluation of the Cirq convert_gate per gate kind and entry-wise "
        "translation of the numpy matrices returned by the converter's own U1/U2/U3 gate classes; validated by "
        "corr_C03_cirq.py; CONTRACT: each Cirq expression of the tables (I, X**0.5, rx, CNOT ...) has the documented matrix "
        "of its library counterpart, Cirq's qubit order inside a gate is big-endian (checked against cirq.unitary each run)",
        "translate/braket_adapter.py: the same for the Braket convert_gate (gate-class tables, the U-gate lambdas, the "
        "literal SqrtY/SqrtYdag matrices); validated by corr_C03_braket.py; CONTRACT: Gate.V = SqrtX, Gate.Si = Sdag, "
        "Gate.U = U3, PhaseShift = U1, CNot/CZ/CCNot controls first, big-endian inside a gate (checked against to_matrix())",
        "translate/qiskit_adapter.py: the same for the Qiskit convert_gate / convert_circuit (qargs = controls then targets); "
        "validated by corr_C03_qiskit.py; CONTRACT: SXGate = SqrtX, PhaseGate = U1, UGate = U3, CXGate/CZGate/CCXGate controls "
        "first, to_matrix() little-endian in the gate's own qubit list",
        "translate/qasm_adapter.py (symbolic evaluation of the f-string lines of the OpenQASM 3 exporter; CONTRACT: stdgates.inc "
        "mnemonics, validated through qiskit.qasm3) and translate/stim_adapter.py (named-gate table of the Stim converter; "
        "CONTRACT: stim.Tableau.from_named_gate), validated by corr_C03_qasm.py / corr_C03_stim.py",
        "translate/tket_adapter.py (convert_circuit + convert_gate and circuit_from_tket; the `/ pi` and `* pi` parameter "
        "scalings are kept symbolically; CONTRACT: OpType names, controls first, ANGLES IN HALF-TURNS, get_unitary() big-endian), "
        "translate/braket_reverse.py (gate_from_braket incl. the U1/U2/U3 choice of the U branch; float equality with 0.0 and "
        "np.pi / 2 is read as equality of reals), translate/reverse_adapters.py (the if/elif chains of circuit_from_qiskit and "
        "circuit_from_cirq; CONTRACT: Qiskit instruction names, Cirq table keys and the classes Rx/Ry/Rz), "
        "translate/qulacs_reverse.py (named-gate branches and the angle expressions of the rotation branch of "
        "circuit_from_qulacs; CONTRACT: Qulacs gate names with their control/target lists, the matrix of a Qulacs rotation is "
        "a library rotation matrix, cmath.phase meets AngleRecovery.phase_contract - a hypothesis of the theorem, shown "
        "satisfiable); validated by corr_C03_tket.py, corr_C03_braket_rev.py, corr_C03_qiskit_rev.py, corr_C03_cirq_rev.py, "
        "corr_C03_qulacs_rev.py",
        "partial: only the Python paths of the Qulacs, Cirq, Braket, Qiskit, tket, OpenQASM and Stim (named gates) forward "
        "converters and the named-gate branches of the Braket, Qiskit, Cirq, tket and Qulacs reverse converters (and the rotation-angle recovery of the latter) have theorems; the Rust "
        "convert_circuit, parametric and compiled circuits, UnitaryMatrix/Pauli/PauliRotation (the set transpilers in front of "
        "the converters are covered by C01), the matrix fallbacks of the reverse conversions, the Pauli / DenseMatrix branches of circuit_from_qulacs, qubit "
        "numbering of multi-register backend circuits, and rotation gates at Clifford angles on their way to Stim "
        "are decided by the backend-simulator sweep (sweep_C03.py)",
    ]
    ctx.translate("qulacs_adapter", adapters.emit, os.path.join(ctx.work, "gen"), os.path.join(ctx.work, "qulacsconv.json"))
    fingerprint.check(ctx, "packages/qulacs/quri_parts/qulacs/circuit/__init__.py", ["convert_parametric_circuit"])
    ctx.translate("cirq_adapter", cirq_adapter.emit, os.path.join(ctx.work, "gen"), os.path.join(ctx.work, "cirqconv.json"))
    ctx.translate("braket_adapter", braket_adapter.emit, os.path.join(ctx.work, "gen"), os.path.join(ctx.work, "braketconv.json"))
    ctx.translate("qiskit_adapter", qiskit_adapter.emit, os.path.join(ctx.work, "gen"), os.path.join(ctx.work, "qiskitconv.json"))
    ctx.translate("qasm_exporter", qasm_adapter.emit, os.path.join(ctx.work, "gen"), os.path.join(ctx.work, "qasmconv.json"))
    ctx.translate("stim_adapter", stim_adapter.emit, os.path.join(ctx.work, "gen"), os.path.join(ctx.work, "stimconv.json"))
    ctx.coq(["qulacsconv.v", "cirqconv.v", "braketconv.v", "qiskitconv.v", "qasmconv.v", "stimconv.v"], ["C03.v"])
    gen = os.path.join(ctx.work, "gen")
    ctx.translate("tket_adapter", tket_adapter.emit_forward, gen, os.path.join(ctx.work, "tketconv.json"))
    ctx.translate("tket_reverse", tket_adapter.emit_reverse, gen, os.path.join(ctx.work, "tketrev.json"))
    ctx.translate("braket_reverse", braket_reverse.emit, gen, os.path.join(ctx.work, "braketrev.json"))
    ctx.translate("qiskit_reverse", reverse_adapters.emit_qiskit, gen, os.path.join(ctx.work, "qiskitrev.json"))
    ctx.translate("cirq_reverse", reverse_adapters.emit_cirq, gen, os.path.join(ctx.work, "cirqrev.json"))
    ctx.translate("qulacs_reverse", qulacs_reverse.emit, gen, os.path.join(ctx.work, "qulacsrev.json"))
    ctx.coq(["tketconv.v", "tketrev.v", "braketrev.v", "qiskitrev.v", "cirqrev.v", "qulacsrev.v"], ["C03_rev.v"])
    if os.path.exists(os.path.join(ctx.work, "qulacsconv.json")):
        ctx.harness("corr_C03.py", kind="corr")
    if os.path.exists(os.path.join(ctx.work, "cirqconv.json")):
        ctx.harness("corr_C03_cirq.py", kind="corr")
    if os.path.exists(os.path.join(ctx.work, "braketconv.json")):
        ctx.harness("corr_C03_braket.py", kind="corr")
    if os.path.exists(os.path.join(ctx.work, "qiskitconv.json")):
        ctx.harness("corr_C03_qiskit.py", kind="corr")
    if os.path.exists(os.path.join(ctx.work, "qasmconv.json")):
        ctx.harness("corr_C03_qasm.py", kind="corr")
    if os.path.exists(os.path.join(ctx.work, "stimconv.json")):
        ctx.harness("corr_C03_stim.py", kind="corr")
    if os.path.exists(os.path.join(ctx.work, "tketconv.json")) and os.path.exists(os.path.join(ctx.work, "tketrev.json")):
        ctx.harness("corr_C03_tket.py", kind="corr")
    if os.path.exists(os.path.join(ctx.work, "braketrev.json")):
        ctx.harness("corr_C03_braket_rev.py", kind="corr")
    if os.path.exists(os.path.join(ctx.work, "qiskitrev.json")):
        ctx.harness("corr_C03_qiskit_rev.py", kind="corr")
    if os.path.exists(os.path.join(ctx.work, "cirqrev.json")):
        ctx.harness("corr_C03_cirq_rev.py", kind="corr")
    if os.path.exists(os.path.join(ctx.work, "qulacsrev.json")):
        ctx.harness("corr_C03_qulacs_rev.py", kind="corr")
    ctx.harness("sweep_C03.py", timeout=1500)
