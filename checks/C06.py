"""C06 - Clifford conjugation of Pauli strings is exact."""
import os

from translate import tables


def run(ctx):
    ctx.trusted += [
        "Coq 8.16.1 kernel + vm_compute",
        "translate/tables.py (fail-closed ast translator of the conjugation / Pauli-product tables and "
        "CLIFFORD_GATE_NAMES)",
        "hand model coq/model/Conj.v of the loop of clifford_gate_conjugation, tied to the code by "
        "corr_C06.py (model evaluated by vm_compute vs implementation on the same cases) and an AST fingerprint",
        "documented gate matrices (coq/lib/Gates.v); numpy oracle for the search",
        "partial: that the returned coefficient is real (+-1) is checked by the sweep, the theorem gives U P = c P' U "
        "with the c the code returns; the multi-qubit Pauli gate is outside the model (checked to raise by the sweep)",
    ]
    js = ctx.translate("tables", tables.run_c06, os.path.join(ctx.work, "gen"), os.path.join(ctx.work, "conjtab.json"))
    if js is not None:
        fp_file = os.path.join(os.path.dirname(os.path.dirname(os.path.abspath(__file__))), "fingerprints.json")
        import json
        fps = json.load(open(fp_file)) if os.path.exists(fp_file) else {}
        ctx.obligations.append("fingerprint:clifford_gate_conjugation")
        if fps.get("clifford_gate_conjugation") == js["fingerprint"]:
            ctx.discharged.append("fingerprint:clifford_gate_conjugation")
        else:
            ctx.broken.append({"what": "source of clifford_gate_conjugation changed (AST fingerprint differs from the "
                                       "one the hand model coq/model/Conj.v was written against)",
                               "detail": f"now {js['fingerprint']}, expected {fps.get('clifford_gate_conjugation')}"})
    ctx.coq(["conjtab.v"], ["C06.v"])
    ctx.harness("corr_C06.py", kind="corr")
