#!/usr/bin/env python3
"""Run the checks against seeded mutants.
  tools_mutants.py ingest /tmp/mutout_C12 C12      # confirm demos, copy to seeded/, run checks
  tools_mutants.py run seeded/C12_m1 [--tier quick]  # apply, run check, revert
Never leaves /repo modified."""
import json
import os
import shutil
import subprocess
import sys

VERIF = os.path.dirname(os.path.abspath(__file__))
REPO = "/repo"


def sh(cmd, **kw):
    return subprocess.run(cmd, shell=True, capture_output=True, text=True, **kw)


def clean_repo():
    r = sh(f"git -C {REPO} status --porcelain")
    return r.stdout.strip() == ""


def demo(tree, path):
    env = dict(os.environ, QP_TREE=tree, PYTHONHASHSEED="0")
    pk = sh(f"ls -d {tree}/packages/*/ | grep -v /rust/ | tr '\\n' ':'").stdout.strip()
    env["PYTHONPATH"] = pk
    r = subprocess.run(["/venv/bin/python", path], env=env, capture_output=True, text=True, timeout=600)
    return r.returncode, (r.stdout + r.stderr)[-400:]


def run_one(mdir, tier="quick", pids=None):
    meta = json.load(open(os.path.join(mdir, "meta.json")))
    pid = meta["property"]
    assert clean_repo(), "/repo is dirty"
    out = {"mutant": os.path.basename(mdir), "property": pid}
    rc0, _ = demo(REPO, os.path.join(mdir, "demo.py"))
    out["demo_clean"] = rc0
    a = sh(f"git -C {REPO} apply {os.path.join(mdir, 'patch.diff')}")
    if a.returncode != 0:
        out["error"] = "patch does not apply: " + a.stderr[-200:]
        return out
    try:
        rc1, msg = demo(REPO, os.path.join(mdir, "demo.py"))
        out["demo_mutant"] = rc1
        for p in (pids or [pid]):
            # the evidence of a dry run against a seeded change never replaces the committed evidence
            r = sh(f"cd {VERIF} && VERIF_EVIDENCE_DIR={VERIF}/.work/evidence_seeded ./check {p} --tier {tier}", timeout=3600)
            viol = [l for l in r.stdout.split("\n") if l.startswith("VIOLATION")]
            out[f"check_{p}"] = {"exit": r.returncode, "violation": viol[:1],
                                 "tail": r.stdout.strip().split("\n")[-1][-200:]}
            if viol:
                rp = viol[0].split("replay=")[1].split()[0]
                try:
                    rj = json.load(open(rp))
                    out[f"check_{p}"]["kind"] = rj.get("kind")
                    out[f"check_{p}"]["key"] = (rj.get("failure") or {}).get("key")
                    out[f"check_{p}"]["broken"] = [b["what"][:100] for b in rj.get("broken_obligations", [])][:4]
                except Exception:  # noqa: BLE001
                    pass
    finally:
        sh(f"git -C {REPO} checkout -- .")
    assert clean_repo()
    return out


def ingest(src, pid, prefix=""):
    """prefix: e.g. 'r2' names the copies <pid>_r2m1 ... (a second round of seeded changes)"""
    res = []
    for m in sorted(os.listdir(src)):
        d = os.path.join(src, m)
        if not (os.path.isdir(d) and os.path.exists(os.path.join(d, "patch.diff"))):
            continue
        dst = os.path.join(VERIF, "seeded", f"{pid}_{prefix}{m}")
        os.makedirs(dst, exist_ok=True)
        for f in ("patch.diff", "demo.py", "meta.json"):
            shutil.copy(os.path.join(d, f), os.path.join(dst, f))
        # demos default to the agent's worktree: make /repo the default
        s = open(os.path.join(dst, "demo.py")).read()
        s = s.replace(f"/tmp/mut_{pid}", "/repo")
        open(os.path.join(dst, "demo.py"), "w").write(s)
        r = run_one(dst)
        meta = json.load(open(os.path.join(dst, "meta.json")))
        meta["confirmed"] = {"demo_on_clean_tree": r.get("demo_clean"), "demo_on_mutant": r.get("demo_mutant")}
        meta["checks"] = {k: v for k, v in r.items() if k.startswith("check_")}
        json.dump(meta, open(os.path.join(dst, "meta.json"), "w"), indent=1)
        res.append(r)
        print(json.dumps(r), flush=True)
    return res


if __name__ == "__main__":
    if sys.argv[1] == "ingest":
        ingest(sys.argv[2], sys.argv[3], sys.argv[4] if len(sys.argv) > 4 else "")
    elif sys.argv[1] == "run":
        tier = sys.argv[sys.argv.index("--tier") + 1] if "--tier" in sys.argv else "quick"
        pids = sys.argv[sys.argv.index("--pids") + 1].split(",") if "--pids" in sys.argv else None
        print(json.dumps(run_one(sys.argv[2], tier, pids), indent=1))
