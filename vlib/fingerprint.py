"""Structural fingerprints of functions whose control flow is hand-modelled in Coq (TR-ctrl).
A changed fingerprint = the source the model was written against changed: a broken obligation
(reported as no-failing-input-found unless the search finds a concrete failing input)."""
import ast
import hashlib
import json
import os

from vlib.common import REPO, VERIF

FP_FILE = os.path.join(VERIF, "fingerprints.json")


def compute(relpath, qualname):
    tree = ast.parse(open(os.path.join(REPO, relpath)).read())
    parts = qualname.split(".")
    node = tree
    for p in parts:
        found = None
        for n in node.body:
            if isinstance(n, (ast.FunctionDef, ast.ClassDef)) and n.name == p:
                found = n
        if found is None:
            raise KeyError(f"{qualname} not found in {relpath}")
        node = found
    body = [s for s in node.body if not (isinstance(s, ast.Expr) and isinstance(s.value, ast.Constant))]
    args = ast.dump(node.args) if isinstance(node, ast.FunctionDef) else ""
    return hashlib.sha256((args + "\n".join(ast.dump(s) for s in body)).encode()).hexdigest()[:16]


def check(ctx, relpath, qualnames):
    fps = json.load(open(FP_FILE)) if os.path.exists(FP_FILE) else {}
    for q in qualnames:
        key = f"{relpath}:{q}"
        ctx.obligations.append(f"fingerprint:{q}")
        try:
            cur = compute(relpath, q)
        except Exception as e:  # noqa: BLE001
            ctx.broken.append({"what": f"fingerprint of {q}: {e}", "detail": ""})
            continue
        if fps.get(key) == cur:
            ctx.discharged.append(f"fingerprint:{q}")
        else:
            ctx.broken.append({"what": f"source of {q} ({relpath}) changed: its hand-written Coq model/contract must be "
                                       "re-validated", "detail": f"fingerprint now {cur}, recorded {fps.get(key)}"})


def record(relpath, qualnames):
    fps = json.load(open(FP_FILE)) if os.path.exists(FP_FILE) else {}
    for q in qualnames:
        fps[f"{relpath}:{q}"] = compute(relpath, q)
    json.dump(fps, open(FP_FILE, "w"), indent=1, sort_keys=True)
