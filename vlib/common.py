"""Shared infrastructure of the verification driver (no quri_parts import here)."""
from __future__ import annotations

import glob
import hashlib
import json
import os
import re
import shutil
import subprocess
import sys
import time

VERIF = os.path.dirname(os.path.dirname(os.path.abspath(__file__)))
REPO = os.environ.get("VERIF_REPO", "/repo")
COQ = os.path.join(VERIF, "coq")
WORK = os.path.join(VERIF, ".work")
PY = "/venv/bin/python"
GUARD = "QURI_PARTS_VERIF"


def repo_pythonpath() -> str:
    pk = sorted(glob.glob(os.path.join(REPO, "packages", "*", "")))
    pk = [p.rstrip("/") for p in pk if os.path.basename(p.rstrip("/")) != "rust"]
    return ":".join(pk + [VERIF])


def harness_env(seed: int) -> dict:
    env = dict(os.environ)
    env["PYTHONPATH"] = repo_pythonpath()
    env["PYTHONHASHSEED"] = "0"
    env[GUARD] = "1"
    env["VERIF_SEED"] = str(seed)
    env["OMP_NUM_THREADS"] = "1"
    env["OPENBLAS_NUM_THREADS"] = "1"
    env["QULACS_NUM_THREADS"] = "1"
    return env


def sha(obj) -> str:
    return hashlib.sha256(json.dumps(obj, sort_keys=True, default=str).encode()).hexdigest()[:16]


# --------------------------------------------------------------------------- Coq
COQ_ARGS = ["-Q", os.path.join(COQ, "lib"), "QP", "-Q", os.path.join(COQ, "model"), "QPM"]
FORBIDDEN = re.compile(
    r"\b(Admitted|admit|Axiom|Axioms|Parameter|Parameters|Conjecture|Conjectures|Admit Obligations|"
    r"Unset Guard Checking|Unset Positivity Checking|Unset Universe Checking|bypass_check|"
    r"Variable|Variables|Hypothesis|Hypotheses)\b")


def ensure_lib(log) -> None:
    """Build coq/lib and coq/model if some .vo is missing or stale."""
    srcs = sorted(glob.glob(os.path.join(COQ, "lib", "*.v")) + glob.glob(os.path.join(COQ, "model", "*.v")))
    stale = [s for s in srcs if not os.path.exists(s + "o") or os.path.getmtime(s + "o") < os.path.getmtime(s)]
    if not stale:
        return
    log(f"building Coq library ({len(stale)} stale files)")
    r = subprocess.run(["bash", os.path.join(VERIF, "setup.sh")], cwd=VERIF, capture_output=True, text=True)
    if r.returncode != 0:
        raise RuntimeError("setup.sh failed:\n" + r.stdout[-3000:] + r.stderr[-3000:])


def scan_forbidden(path: str) -> list[str]:
    """Forbidden declarations; Variable/Hypothesis are allowed only inside a Section."""
    out = []
    depth = 0
    txt = open(path).read()
    txt = re.sub(r"\(\*.*?\*\)", lambda m: "\n" * m.group(0).count("\n"), txt, flags=re.S)
    for ln, line in enumerate(txt.split("\n"), 1):
        if re.match(r"\s*Section\s+\w+", line):
            depth += 1
        if re.match(r"\s*End\s+\w+", line) and depth > 0:
            depth -= 1
        for m in FORBIDDEN.finditer(line):
            w = m.group(1)
            if w in ("Variable", "Variables", "Hypothesis", "Hypotheses") and depth > 0:
                continue
            out.append(f"{os.path.basename(path)}:{ln}:{w}")
    return out


THM_RE = re.compile(r"^\s*(Theorem)\s+([A-Za-z0-9_']+)", re.M)


def theorems_in(path: str) -> list[tuple[int, str]]:
    txt = open(path).read()
    res = []
    for m in THM_RE.finditer(txt):
        ln = txt.count("\n", 0, m.start()) + 1
        res.append((ln, m.group(2)))
    return res


def coqc(path: str, extra_args: list[str], cwd: str, timeout: int = 900):
    cmd = ["timeout", str(timeout), "coqc"] + COQ_ARGS + extra_args + [path]
    t0 = time.time()
    r = subprocess.run(cmd, cwd=cwd, capture_output=True, text=True)
    return r.returncode, r.stdout, r.stderr, time.time() - t0


def parse_assumptions(stdout: str) -> list[str]:
    axs = set()
    for block in re.split(r"\n(?=Axioms:|Closed under the global context)", stdout):
        if block.startswith("Axioms:"):
            for m in re.finditer(r"^([A-Za-z_][\w.']*)\s*\n?\s*:", block[7:], re.M):
                axs.add(m.group(1))
    return sorted(axs)


# --------------------------------------------------------------------------- findings
def load_known(pid: str):
    path = os.path.join(VERIF, "KNOWN_FINDINGS.txt")
    known = {}
    if not os.path.exists(path):
        return known
    for line in open(path):
        line = line.strip()
        m = re.match(r"finding:\s+property=(\S+)\s+key=(\S+)\s+(.*)$", line)
        if m and m.group(1) == pid:
            known[m.group(2)] = m.group(3)
    return known


class Ctx:
    def __init__(self, pid: str, tier: str, seed: int):
        self.pid, self.tier, self.seed = pid, tier, seed
        self.t0 = time.time()
        self.work = os.path.join(WORK, pid)
        shutil.rmtree(self.work, ignore_errors=True)
        os.makedirs(os.path.join(self.work, "gen"), exist_ok=True)
        os.makedirs(os.path.join(self.work, "props"), exist_ok=True)
        self.logs: list[str] = []
        self.obligations: list[str] = []       # names of all proof obligations
        self.discharged: list[str] = []
        self.broken: list[dict] = []           # {"what":..., "detail":...}
        self.failures: list[dict] = []         # concrete failing inputs {"key","desc","input","source"}
        self.axioms: set[str] = set()
        self.cov = {"evaluations": 0, "distinct_nontrivial": 0, "samples": [], "rule": [],
                    "distribution": {}, "traces_validated_against_impl": 0}
        self.assumptions: list[str] = []
        self.trusted: list[str] = []
        self.checker_cmds: list[str] = []

    def log(self, msg: str):
        self.logs.append(msg)
        print(f"[{self.pid}] {msg}", flush=True)

    # -- translators --------------------------------------------------------------
    def translate(self, name: str, func, *args):
        """Run a fail-closed translator; a failure is a broken obligation."""
        self.obligations.append(f"translate:{name}")
        try:
            res = func(*args)
            self.discharged.append(f"translate:{name}")
            return res
        except Exception as e:  # noqa: BLE001 - fail closed on anything
            self.broken.append({"what": f"translator {name}", "detail": f"{type(e).__name__}: {e}"})
            self.log(f"translator {name} FAILED: {e}")
            return None

    def gen_path(self, name: str) -> str:
        return os.path.join(self.work, "gen", name)

    # -- coq ------------------------------------------------------------------------
    def coq(self, gen_files: list[str], props_files: list[str], timeout: int = 900, optional: tuple = ()):
        """Compile generated files (in order), then the property files copied from coq/props.
        Files named in `optional` hold refutation theorems of LISTED known findings (statements that the regenerated model
        of the defective code violates the property): when the defect is repaired in /repo they stop holding, which is
        not a violation - their failure is only noted."""
        ensure_lib(self.log)
        extra = ["-Q", os.path.join(self.work, "gen"), "QPG", "-Q", os.path.join(self.work, "props"), "QPP"]
        ok_gen = True
        for g in gen_files:
            p = self.gen_path(g)
            if not os.path.exists(p):
                self.broken.append({"what": f"generated file {g} is missing (its translator failed)", "detail": ""})
                ok_gen = False
                break
            bad = scan_forbidden(p)
            if bad:
                self.broken.append({"what": f"forbidden declaration in {g}", "detail": ",".join(bad)})
                ok_gen = False
                break
            rc, out, err, dt = coqc(p, extra, self.work, timeout)
            if rc != 0:
                self.broken.append({"what": f"generated file {g} does not compile", "detail": (out + err)[-1500:]})
                self.log(f"coqc gen/{g} FAILED:\n{(out + err)[-1500:]}")
                ok_gen = False
                break
        for pf in props_files:
            src = os.path.join(COQ, "props", pf)
            dst = os.path.join(self.work, "props", pf)
            shutil.copy(src, dst)
            thms = theorems_in(dst)
            names = [f"{pf}:{n}" for _, n in thms]
            if pf in optional:
                bad = scan_forbidden(dst)
                if bad:
                    self.broken.append({"what": f"forbidden declaration in {pf}", "detail": ",".join(bad)})
                    continue
                if not ok_gen:
                    continue
                rc, out, err, dt = coqc(dst, extra, self.work, timeout)
                if rc == 0:
                    self.obligations += names
                    self.discharged += names
                    self.axioms.update(parse_assumptions(out))
                    self.checker_cmds.append("coqc " + " ".join(COQ_ARGS + extra) + f" props/{pf}")
                    self.log(f"coqc props/{pf}: {len(names)} refutation theorems of listed findings checked in {dt:.1f}s")
                else:
                    self.assumptions.append(f"{pf}: the refutation theorems of the listed known findings no longer check "
                                      "(the defect may have been repaired in /repo); not a violation")
                    self.log(f"coqc props/{pf}: refutation theorems no longer check (not a violation)")
                continue
            self.obligations += names
            bad = scan_forbidden(dst)
            if bad:
                self.broken.append({"what": f"forbidden declaration in {pf}", "detail": ",".join(bad)})
                continue
            if not ok_gen:
                self.broken.append({"what": f"{pf}: not compiled (generated definitions unavailable)", "detail": ""})
                continue
            rc, out, err, dt = coqc(dst, extra, self.work, timeout)
            self.checker_cmds.append("coqc " + " ".join(COQ_ARGS + extra) + f" props/{pf}")
            self.axioms.update(parse_assumptions(out))
            if rc == 0:
                self.discharged += names
                self.log(f"coqc props/{pf}: {len(names)} theorems checked in {dt:.1f}s")
                if self.tier == "thorough":
                    self.coqchk(pf, extra)
            else:
                m = re.search(r'line (\d+), characters', err + out)
                fail_ln = int(m.group(1)) if m else 0
                failing = None
                for ln, n in thms:
                    if ln <= fail_ln:
                        failing = n
                for ln, n in thms:
                    if failing is not None and ln < [l for l, x in thms if x == failing][0]:
                        self.discharged.append(f"{pf}:{n}")
                detail = (err + out)[-1500:]
                if rc == 124:
                    detail = "coqc timed out\n" + detail
                self.broken.append({"what": f"theorem {failing or '?'} in {pf} no longer checks", "detail": detail})
                self.log(f"coqc props/{pf} FAILED at line {fail_ln} (theorem {failing}):\n{detail}")

    def coqchk(self, pf: str, extra: list[str]):
        """thorough tier: re-check the compiled property file and everything it depends on with the independent checker
        and record the axioms it lists (they include axioms of every loaded library module, used or not)"""
        mod = "QPP." + os.path.splitext(pf)[0]
        self.obligations.append(f"coqchk:{pf}")
        t0 = time.time()
        try:
            r = subprocess.run(["timeout", "1800", "coqchk", "-silent", "-o"] + COQ_ARGS + extra + [mod], cwd=self.work,
                               capture_output=True, text=True)
        except Exception as e:  # noqa: BLE001
            self.broken.append({"what": f"coqchk {pf} could not run", "detail": str(e)})
            return
        out = r.stdout + r.stderr
        if r.returncode != 0 or "CONTEXT SUMMARY" not in out:
            self.broken.append({"what": f"coqchk rejects {pf}", "detail": out[-1500:]})
            return
        ax = []
        block = out.split("* Axioms:")[1].split("* Constants")[0] if "* Axioms:" in out else ""
        for line in block.split("\n"):
            line = line.strip()
            if line and line != "<none>":
                ax.append(line)
        for bad in ("type-in-type", "unsafe (co)fixpoints", "positivity is assumed"):
            seg = out.split(bad)[1].split("\n")[0] if bad in out else ": <none>"
            if "<none>" not in seg:
                self.broken.append({"what": f"coqchk {pf}: {bad}", "detail": seg})
        self.discharged.append(f"coqchk:{pf}")
        self.trusted.append(f"coqchk -o {mod} ({time.time() - t0:.0f}s): axioms of all loaded modules = " + (", ".join(ax) or "none"))
        self.log(f"coqchk {pf}: ok, {len(ax)} axioms in the loaded context")

    # -- harness subprocesses ---------------------------------------------------------
    def harness(self, script: str, args: list[str] | None = None, timeout: int = 3000, kind: str = "sweep"):
        """Run a harness under the repo interpreter; it prints one JSON object as its last line."""
        cmd = [PY, os.path.join(VERIF, "harness", script), "--tier", self.tier, "--seed", str(self.seed),
               "--work", self.work] + (args or [])
        t0 = time.time()
        try:
            r = subprocess.run(cmd, cwd=VERIF, env=harness_env(self.seed), capture_output=True, text=True,
                               timeout=timeout)
        except subprocess.TimeoutExpired:
            self.broken.append({"what": f"harness {script} timed out", "detail": ""})
            return None
        dt = time.time() - t0
        last = r.stdout.strip().split("\n")[-1] if r.stdout.strip() else ""
        try:
            res = json.loads(last)
        except Exception:  # noqa: BLE001
            self.broken.append({"what": f"harness {script} crashed", "detail": (r.stdout[-1500:] + r.stderr[-2500:])})
            self.log(f"harness {script} crashed:\n{r.stdout[-1500:]}\n{r.stderr[-2500:]}")
            return None
        self.log(f"harness {script}: {res.get('evaluations', 0)} evaluations, "
                 f"{len(res.get('failures', []))} failures, {dt:.1f}s")
        self.cov["evaluations"] += int(res.get("evaluations", 0))
        self.cov["distinct_nontrivial"] += int(res.get("distinct_nontrivial", 0))
        self.cov["samples"] += res.get("samples", [])[:4]
        if res.get("rule"):
            self.cov["rule"].append(f"{script}: {res['rule']}")
        if res.get("distribution"):
            self.cov["distribution"][script] = res["distribution"]
        if kind == "corr":
            self.cov["traces_validated_against_impl"] += int(res.get("evaluations", 0))
        for f in res.get("failures", []):
            f.setdefault("source", script)
            self.failures.append(f)
        for b in res.get("broken", []):
            self.broken.append(b)
        return res

    # -- classification ------------------------------------------------------------------
    def finish(self, level: str = "proof", extra_cov: dict | None = None) -> int:
        known = load_known(self.pid)
        rc = 0
        lines = []
        new_fail = []
        seen_known = {}
        for f in self.failures:
            k = f.get("key", "")
            if k in known:
                seen_known[k] = known[k]
            else:
                new_fail.append(f)
        for k, txt in seen_known.items():
            lines.append(f"KNOWN-FINDING: property={self.pid} key={k} {txt}")
        os.makedirs(os.path.join(VERIF, "replays"), exist_ok=True)
        if new_fail:
            f = new_fail[0]
            rp = os.path.join(VERIF, "replays", f"{self.pid}_{sha(f)}.json")
            json.dump({"property": self.pid, "kind": "failing-input", "failure": f,
                       "all_failures": new_fail[:20], "broken_obligations": self.broken,
                       "seed": self.seed, "tier": self.tier}, open(rp, "w"), indent=1, default=str)
            lines.append(f"VIOLATION property={self.pid} replay={rp}")
            rc = 1
        elif self.broken:
            # a broken obligation whose every consequence is a known finding is explained by it
            rp = os.path.join(VERIF, "replays", f"{self.pid}_{sha(self.broken)}.json")
            json.dump({"property": self.pid, "kind": "broken-obligation", "broken_obligations": self.broken,
                       "note": "no concrete failing input was found by the search; the named theorem, "
                               "translator or correspondence no longer checks",
                       "seed": self.seed, "tier": self.tier}, open(rp, "w"), indent=1, default=str)
            lines.append(f"VIOLATION property={self.pid} replay={rp} no-failing-input-found")
            rc = 1
        wall = time.time() - self.t0
        cov = {
            "obligations": len(self.obligations),
            "discharged": len(self.discharged),
            "checker_cmd": "; ".join(dict.fromkeys(self.checker_cmds)) or "coqc (see DESIGN.md)",
            "trusted_base": self.trusted + [f"axiom: {a}" for a in sorted(self.axioms)],
            "evaluations": max(1, self.cov["evaluations"]),
            "distinct_nontrivial": self.cov["distinct_nontrivial"],
            "rule": " | ".join(self.cov["rule"]),
            "samples": self.cov["samples"][:12] or [{"obligations": self.obligations[:8]}],
            "traces_validated_against_impl": self.cov["traces_validated_against_impl"],
            "distribution": self.cov["distribution"],
            "obligation_names": self.obligations,
            "broken": self.broken,
            "known_findings_seen": sorted(seen_known),
        }
        if extra_cov:
            cov.update(extra_cov)
        ev = {
            "property_id": self.pid, "tier": self.tier, "seed": self.seed, "level": level,
            "coverage": cov, "assumptions": self.assumptions, "wall_s": round(wall, 2),
            "violations": len(new_fail) + (1 if (self.broken and not new_fail) else 0),
        }
        # dry runs against seeded changes (tools_mutants.py) write their evidence elsewhere: the committed evidence is always
        # the record of a run against the unchanged tree
        evdir = os.environ.get("VERIF_EVIDENCE_DIR") or os.path.join(VERIF, "evidence")
        os.makedirs(evdir, exist_ok=True)
        json.dump(ev, open(os.path.join(evdir, f"{self.pid}.json"), "w"), indent=1, default=str)
        for ln in lines:
            print(ln, flush=True)
        print(f"[{self.pid}] obligations {len(self.discharged)}/{len(self.obligations)} discharged; "
              f"{self.cov['evaluations']} evaluations; {len(new_fail)} new failures; "
              f"{len(seen_known)} known findings; {wall:.1f}s; exit {rc}", flush=True)
        if not os.environ.get("VERIF_KEEP_WORK"):
            shutil.rmtree(self.work, ignore_errors=True)
        return rc
