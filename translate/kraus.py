"""TR-kraus: fail-closed translator of the closed-form Kraus families and the validation code of every
noise factory in circuit/noise/noise_instruction.py.

For a factory F it extracts
  * the Kraus operators returned by the nested _get_kraus_operator_sequence (2x2 real matrices whose
    entries are 0, 1 or np.sqrt(<polynomial>), optionally scaled by np.sqrt(<polynomial>)), and
  * the validation preceding the construction: calls of _check_valid_probability(x, ...) and
    `if <a> + <b> > 1: raise ValueError`, `if x < 0.0: raise`, `if x <= 0.0: raise`, `if a > c * b: raise`
and emits Coq definitions over the reals.  Never evaluates repo code."""
from __future__ import annotations

import ast
import json
import os

from vlib.common import REPO
from translate.templates import TranslateError

PATH = os.path.join(REPO, "packages/circuit/quri_parts/circuit/noise/noise_instruction.py")
KRAUS_FAMILIES = ["ResetNoise", "PhaseDampingNoise", "AmplitudeDampingNoise", "PhaseAmplitudeDampingNoise"]
PROB_ONLY = ["BitFlipNoise", "PhaseFlipNoise", "BitPhaseFlipNoise", "DepolarizingNoise"]


def _expr(node, env) -> str:
    """python arithmetic expression -> Coq R expression (string)"""
    if isinstance(node, ast.Constant) and isinstance(node.value, (int, float)):
        v = node.value
        if float(v) != int(v):
            raise TranslateError(f"non-integer constant {v}")
        return f"{int(v)}"
    if isinstance(node, ast.Name):
        if node.id in env:
            return env[node.id]
        raise TranslateError(f"unknown name {node.id}")
    if isinstance(node, ast.UnaryOp) and isinstance(node.op, ast.USub):
        return f"(- {_expr(node.operand, env)})"
    if isinstance(node, ast.BinOp) and isinstance(node.op, (ast.Add, ast.Sub, ast.Mult)):
        op = {ast.Add: "+", ast.Sub: "-", ast.Mult: "*"}[type(node.op)]
        return f"({_expr(node.left, env)} {op} {_expr(node.right, env)})"
    if isinstance(node, ast.Call):
        f = node.func
        if isinstance(f, ast.Attribute) and isinstance(f.value, ast.Name) and f.value.id in ("np", "math") \
                and f.attr == "sqrt" and len(node.args) == 1:
            return f"(sqrt {_expr(node.args[0], env)})"
        if isinstance(f, ast.Name) and f.id == "max" and len(node.args) == 2:
            return f"(Rmax {_expr(node.args[0], env)} {_expr(node.args[1], env)})"
    raise TranslateError(f"line {getattr(node, 'lineno', '?')}: unsupported expression {ast.dump(node)[:80]}")


def _matrix(node, env):
    if isinstance(node, ast.Call) and isinstance(node.func, ast.Attribute) and node.func.attr == "array" \
            and len(node.args) == 1:
        node = node.args[0]
    if not (isinstance(node, ast.List) and len(node.elts) == 2 and
            all(isinstance(r, ast.List) and len(r.elts) == 2 for r in node.elts)):
        raise TranslateError(f"line {node.lineno}: expected a 2x2 matrix literal")
    return [[_expr(e, env) for e in r.elts] for r in node.elts]


def _kraus_op(node, env):
    """scale * matrix | matrix"""
    if isinstance(node, ast.BinOp) and isinstance(node.op, ast.Mult):
        return _expr(node.left, env), _matrix(node.right, env)
    return "1", _matrix(node, env)


def _validation(stmts, env, nested_names):
    conds = []   # Coq Props that must hold for the call to be accepted
    for st in stmts:
        if isinstance(st, ast.Expr) and isinstance(st.value, ast.Constant):
            continue
        if isinstance(st, ast.FunctionDef):
            continue
        if isinstance(st, ast.Expr) and isinstance(st.value, ast.Call) and isinstance(st.value.func, ast.Name) \
                and st.value.func.id == "_check_valid_probability":
            x = _expr(st.value.args[0], env)
            conds.append(f"0 <= {x} <= 1")
            continue
        if isinstance(st, ast.If) and len(st.body) == 1 and isinstance(st.body[0], ast.Raise) and not st.orelse:
            t = st.test
            if isinstance(t, ast.Compare) and len(t.ops) == 1:
                l, r = _expr(t.left, env), _expr(t.comparators[0], env)
                neg = {ast.Gt: f"{l} <= {r}", ast.GtE: f"{l} < {r}", ast.Lt: f"{r} <= {l}", ast.LtE: f"{r} < {l}"}
                if type(t.ops[0]) in neg:
                    conds.append(neg[type(t.ops[0])])
                    continue
            raise TranslateError(f"line {st.lineno}: unsupported validation test")
        if isinstance(st, ast.Assign) and isinstance(st.value, ast.Call) and isinstance(st.value.func, ast.Name) \
                and st.value.func.id in nested_names:
            continue
        if isinstance(st, ast.Return):
            continue
        raise TranslateError(f"line {st.lineno}: unsupported statement in factory body")
    return conds


def extract():
    tree = ast.parse(open(PATH).read(), PATH)
    funcs = {n.name: n for n in tree.body if isinstance(n, ast.FunctionDef)}
    # _check_valid_probability itself: accepted iff 0 <= x <= 1
    chk = funcs.get("_check_valid_probability")
    if chk is None:
        raise TranslateError("_check_valid_probability not found")
    body = [s for s in chk.body if not (isinstance(s, ast.Expr) and isinstance(s.value, ast.Constant))]
    src = ast.unparse(body[0].test) if body and isinstance(body[0], ast.If) else ""
    if src not in ("not 0 <= x <= 1", "x < 0 or x > 1"):
        raise TranslateError(f"_check_valid_probability: unexpected test `{src}`")
    out = {}
    for name in KRAUS_FAMILIES + PROB_ONLY:
        fn = funcs.get(name)
        if fn is None:
            raise TranslateError(f"factory {name} not found")
        args = [a.arg for a in fn.args.args if a.arg not in ("qubit_indices", "target_gates")]
        env = {a: a for a in args}
        nested = {n.name: n for n in fn.body if isinstance(n, ast.FunctionDef)}
        conds = _validation(fn.body, env, set(nested))
        entry = {"args": args, "valid": conds, "kraus": None}
        if name in KRAUS_FAMILIES:
            g = nested.get("_get_kraus_operator_sequence")
            if g is None:
                raise TranslateError(f"{name}: nested _get_kraus_operator_sequence not found")
            gargs = [a.arg for a in g.args.args]
            # the call site binds nested args to factory args positionally
            call = [s for s in fn.body if isinstance(s, ast.Assign) and isinstance(s.value, ast.Call)
                    and isinstance(s.value.func, ast.Name) and s.value.func.id == "_get_kraus_operator_sequence"]
            if len(call) != 1 or len(call[0].value.args) != len(gargs):
                raise TranslateError(f"{name}: unexpected call of _get_kraus_operator_sequence")
            genv = {ga: _expr(a, env) for ga, a in zip(gargs, call[0].value.args)}
            gb = [s for s in g.body if not (isinstance(s, ast.Expr) and isinstance(s.value, ast.Constant))]
            if len(gb) != 1 or not isinstance(gb[0], ast.Return) or not isinstance(gb[0].value, ast.Tuple):
                raise TranslateError(f"{name}: Kraus sequence must be a returned tuple literal")
            entry["kraus"] = [_kraus_op(e, genv) for e in gb[0].value.elts]
            # the validation must precede the construction of the operators
            idx_call = fn.body.index(call[0])
            for st in fn.body[idx_call + 1:]:
                if not isinstance(st, ast.Return):
                    raise TranslateError(f"{name}: statements after the Kraus construction")
        out[name] = entry
    return out


def emit(gen_dir, json_path):
    fam = extract()
    lines = ["(* GENERATED by translate/kraus.py from /repo -- do not edit *)",
             "From Coq Require Import Reals List.", "From QPM Require Import Noise.",
             "Import ListNotations.", "Local Open Scope R_scope.", ""]
    for name, e in fam.items():
        args = " ".join(f"({a} : R)" for a in e["args"])
        conds = " /\\ ".join(e["valid"]) if e["valid"] else "True"
        lines.append(f"Definition valid_{name} {args} : Prop := {conds}.")
        if e["kraus"] is not None:
            ops = ";\n   ".join(f"mkK {s} {m[0][0]} {m[0][1]} {m[1][0]} {m[1][1]}" for s, m in e["kraus"])
            lines.append(f"Definition kraus_{name} {args} : list kraus_op :=\n  [{ops}].\n")
    open(os.path.join(gen_dir, "krausgen.v"), "w").write("\n".join(lines) + "\n")
    json.dump(fam, open(json_path, "w"), indent=1)
    return fam


if __name__ == "__main__":
    print(json.dumps(extract(), indent=1))
