"""TR-native: fail-closed translators of the parts of the Quantinuum / IonQ native transpilers that are not plain
templates (those are handled by translate/templates.py:run_native):

  * U1qNormalizeWithRZTranspiler.decompose  - an if/elif chain on `self._is_close(theta, K)`; every branch returns a
    list literal of gate-factory calls (or `[gate]`).  Emitted: one row per branch
        (name, body, target with theta := K for a snapped branch / symbolic theta otherwise).
  * CNOTRZ2RZZTranspiler.__call__           - a three-gate sliding window; the window test (names + index equalities)
    and the replacement are read from the source, the loop itself is modelled by hand (coq/model/Native.v) and pinned by
    an AST fingerprint.
  * IonQNativeTranspiler.__call__           - the virtual-Z bookkeeping: an if/elif chain on gate.name and on
    `self._is_close(theta, K)`; every branch appends GPi/GPi2/MS gates whose phases are affine in phase[target] (turns)
    and theta / (2 pi), and may update phase[target].  Emitted: one row per branch with all phases converted to radians
    (1 turn = 2 pi; `% 1.0` is dropped - it changes neither the gates nor the frame).

Never evaluates repository code."""
from __future__ import annotations

import ast
import json
import os
from fractions import Fraction

from translate import templates as T
from translate.templates import ALLK, TranslateError, coq_gate, coq_ang

QN_PATH = T.NATIVE_FILES[0]
IONQ_PATH = T.NATIVE_FILES[1]


def _class(tree, name):
    cs = [n for n in tree.body if isinstance(n, ast.ClassDef) and n.name == name]
    if len(cs) != 1:
        raise TranslateError(f"class {name} not found")
    return cs[0], {f.name: f for f in cs[0].body if isinstance(f, ast.FunctionDef)}


def _nodoc(body):
    return [s for s in body if not (isinstance(s, ast.Expr) and isinstance(s.value, ast.Constant))]


def _check_is_close(funcs, eps_attr):
    f = funcs.get("_is_close")
    if f is None:
        raise TranslateError("_is_close not found")
    src = ast.unparse(_nodoc(f.body)[0]) if len(_nodoc(f.body)) == 1 else ""
    args = [a.arg for a in f.args.args]
    if len(args) != 3 or src != f"return abs({args[1]} - {args[2]}) < self.{eps_attr}":
        raise TranslateError(f"_is_close is not `abs(a - b) < self.{eps_attr}`: {src}")


def _close_call(node, var):
    """self._is_close(<var>, K) -> K as Affine, else None"""
    if isinstance(node, ast.Call) and isinstance(node.func, ast.Attribute) and node.func.attr == "_is_close" \
            and isinstance(node.func.value, ast.Name) and node.func.value.id == "self" and len(node.args) == 2 \
            and isinstance(node.args[0], ast.Name) and node.args[0].id == var:
        k = T._angle(node.args[1], {})
        if k.th and any(v != 0 for v in k.th.values()):
            raise TranslateError("snapping constant depends on a parameter")
        return k
    return None


# ----------------------------------------------------------------------------- U1qNormalizeWithRZTranspiler
def extract_u1q_normalize():
    tree = ast.parse(open(QN_PATH).read(), QN_PATH)
    T.ENV = T.Env(tree)
    cls, funcs = _class(tree, "U1qNormalizeWithRZTranspiler")
    if [b.id for b in cls.bases if isinstance(b, ast.Name)] != ["GateKindDecomposer"]:
        raise TranslateError("U1qNormalizeWithRZTranspiler is not a GateKindDecomposer")
    if set(funcs) != {"__init__", "epsilon", "target_gate_names", "_is_close", "decompose"}:
        raise TranslateError(f"unexpected methods {sorted(funcs)}")
    if T._targets(funcs["target_gate_names"]) != ["U1q"]:
        raise TranslateError("target_gate_names is not [U1q]")
    _check_is_close(funcs, "epsilon")
    body = _nodoc(funcs["decompose"].body)
    roles, params = {}, {}
    i = 0
    while i < len(body) and isinstance(body[i], ast.Assign):
        st = body[i]
        tgt, val = st.targets[0], st.value
        if isinstance(tgt, ast.Name):
            kind, j = T._index_source(val, 0)
            (roles if kind == "role" else params)[tgt.id] = j
        elif isinstance(tgt, ast.Tuple) and ast.unparse(val) == "gate.params" and len(tgt.elts) == 2:
            for j, t in enumerate(tgt.elts):
                params[t.id] = j
        else:
            raise TranslateError(f"line {st.lineno}: unsupported binding")
        i += 1
    if i != len(body) - 1 or not isinstance(body[i], ast.If):
        raise TranslateError("decompose must be bindings followed by one if/elif/else chain")
    theta = [k for k, v in params.items() if v == 0]
    if len(theta) != 1:
        raise TranslateError("theta is not bound")
    theta = theta[0]

    def ret_of(stmts):
        stmts = _nodoc(stmts)
        if len(stmts) != 1 or not isinstance(stmts[0], ast.Return) or not isinstance(stmts[0].value, ast.List):
            raise TranslateError("a branch must be a single `return [...]`")
        lst = stmts[0].value
        if len(lst.elts) == 1 and isinstance(lst.elts[0], ast.Name) and lst.elts[0].id == "gate":
            return "unchanged"
        return T._gate_list(lst, roles, dict(params), 1, 0, 2, ALLK)

    branches = []
    node = body[i]
    excluded = []  # snapping constants already handled by earlier branches
    while True:
        test = node.test
        k = _close_call(test, theta)
        if k is not None:
            branches.append({"name": f"theta_close_to_{ast.unparse(test.args[1])}", "snap": k.to_json(2)["pi4"],
                             "body": ret_of(node.body)})
        elif isinstance(test, ast.BoolOp) and isinstance(test.op, ast.And):
            ks = []
            for v in test.values:
                if not (isinstance(v, ast.UnaryOp) and isinstance(v.op, ast.Not)):
                    raise TranslateError("generic branch must be a conjunction of `not self._is_close(theta, K)`")
                kk = _close_call(v.operand, theta)
                if kk is None:
                    raise TranslateError("generic branch must be a conjunction of `not self._is_close(theta, K)`")
                ks.append(kk.to_json(2)["pi4"])
            branches.append({"name": "generic_theta", "snap": None, "not_close_to": ks, "body": ret_of(node.body)})
            excluded = ks
        else:
            raise TranslateError(f"line {test.lineno}: unsupported branch test {ast.unparse(test)}")
        if len(node.orelse) == 1 and isinstance(node.orelse[0], ast.If):
            node = node.orelse[0]
            continue
        if node.orelse:
            # the else branch is taken exactly when theta is close to one of the constants excluded by the generic branch
            b = ret_of(node.orelse)
            if not excluded:
                raise TranslateError("else branch without a preceding generic branch")
            for kk in excluded:
                branches.append({"name": f"else_theta_close_to_{kk}pi4", "snap": kk, "body": b})
        else:
            raise TranslateError("decompose may fall through without returning")
        break
    return branches


# ----------------------------------------------------------------------------- CNOTRZ2RZZTranspiler
def extract_cnotrz2rzz():
    tree = ast.parse(open(QN_PATH).read(), QN_PATH)
    T.ENV = T.Env(tree)
    cls, funcs = _class(tree, "CNOTRZ2RZZTranspiler")
    if set(funcs) != {"__call__"}:
        raise TranslateError("CNOTRZ2RZZTranspiler: unexpected methods")
    src = ast.unparse(funcs["__call__"])
    need = [
        "xs = circuit.gates", "ys = []", "i = 0", "while i < len(xs) - 2:", "a, b, c = xs[i:i + 3]",
        "if a.name == gate_names.CNOT and b.name == gate_names.RZ and (c.name == gate_names.CNOT):",
        "control_a, target_a = (a.control_indices[0], a.target_indices[0])",
        "target_b = b.target_indices[0]",
        "control_c, target_c = (c.control_indices[0], c.target_indices[0])",
        "if control_a == control_c and target_a == target_b and (target_b == target_c):",
        "ys.append(RZZ(control_a, target_a, b.params[0]))", "i += 3", "continue",
        "ys.append(xs[i])", "i += 1", "ys.extend(xs[i:])",
        "ret = QuantumCircuit(circuit.qubit_count)", "ret.extend(ys)", "return ret",
    ]
    pos = 0
    for frag in need:
        j = src.find(frag, pos)
        if j < 0:
            raise TranslateError(f"CNOTRZ2RZZTranspiler.__call__: expected `{frag}` (in this order)")
        pos = j + len(frag)
    if "RZZ" not in T.ENV.factory_names:
        raise TranslateError("RZZ is not the quantinuum gate factory")
    th = {"pi4": 0, "th": [1]}
    return {"n_roles": 2,
            "window": [{"name": "CNOT", "roles": [0, 1], "angles": []}, {"name": "RZ", "roles": [1], "angles": [th]},
                       {"name": "CNOT", "roles": [0, 1], "angles": []}],
            "body": [{"name": "RZZ", "roles": [0, 1], "angles": [th]}]}


# ----------------------------------------------------------------------------- IonQNativeTranspiler
class Turns:
    """c + a0*phase[t0] + a1*phase[t1] + b*theta/(2 pi)   (all in turns)"""

    def __init__(self, c=0, p=None, th=0):
        self.c, self.p, self.th = Fraction(c), dict(p or {}), Fraction(th)

    def add(self, o, s=1):
        p = dict(self.p)
        for k, v in o.p.items():
            p[k] = p.get(k, 0) + s * v
        return Turns(self.c + s * o.c, p, self.th + s * o.th)

    def to_ang(self):
        """radians: constant c turns = 8c * pi/4; variables: var0, var1 = frame angles of the targets, var2 = theta"""
        k = self.c * 8
        if k.denominator != 1:
            raise TranslateError(f"phase constant {self.c} turns is not a multiple of pi/4")
        cs = [Fraction(self.p.get(0, 0)), Fraction(self.p.get(1, 0)), self.th]
        if any(c.denominator != 1 for c in cs):
            raise TranslateError("non-integer coefficient in a phase")
        return {"pi4": int(k), "th": [int(c) for c in cs]}


def _turns(node, tvars, theta_name):
    """expression in turns over phase[<target name>] and theta / (2.0 * np.pi); `% 1.0` dropped"""
    if isinstance(node, ast.BinOp) and isinstance(node.op, ast.Mod):
        if not (isinstance(node.right, ast.Constant) and node.right.value == 1.0):
            raise TranslateError("only `% 1.0` is a whole number of turns")
        return _turns(node.left, tvars, theta_name)
    if isinstance(node, ast.Constant) and isinstance(node.value, (int, float)):
        return Turns(c=Fraction(node.value).limit_denominator(10 ** 6))
    if isinstance(node, ast.Subscript) and isinstance(node.value, ast.Name) and node.value.id == "phase" \
            and isinstance(node.slice, ast.Name) and node.slice.id in tvars:
        return Turns(p={tvars[node.slice.id]: 1})
    if isinstance(node, ast.BinOp) and isinstance(node.op, (ast.Add, ast.Sub)):
        a, b = _turns(node.left, tvars, theta_name), _turns(node.right, tvars, theta_name)
        return a.add(b, 1 if isinstance(node.op, ast.Add) else -1)
    if isinstance(node, ast.BinOp) and isinstance(node.op, ast.Div) and isinstance(node.left, ast.Name) \
            and node.left.id == theta_name and ast.unparse(node.right) == "2.0 * np.pi":
        return Turns(th=1)
    raise TranslateError(f"line {getattr(node, 'lineno', '?')}: unsupported phase expression {ast.unparse(node)}")


def extract_ionq_native():
    tree = ast.parse(open(IONQ_PATH).read(), IONQ_PATH)
    T.ENV = T.Env(tree)
    cls, funcs = _class(tree, "IonQNativeTranspiler")
    if set(funcs) != {"__init__", "epsilon", "_is_close", "__call__"}:
        raise TranslateError(f"IonQNativeTranspiler: unexpected methods {sorted(funcs)}")
    _check_is_close(funcs, "epsilon")
    body = _nodoc(funcs["__call__"].body)
    shape = [ast.unparse(s).split("\n")[0] for s in body]
    want = ["phase: MutableMapping[int, float] = defaultdict(float)", "cg = []", "for gate in circuit.gates:",
            "cc = QuantumCircuit(circuit.qubit_count)", "cc.extend(cg)", "return cc"]
    if shape != want:
        raise TranslateError(f"IonQNativeTranspiler.__call__ has an unexpected outline: {shape}")
    loop = body[2]
    if len(loop.body) != 1 or not isinstance(loop.body[0], ast.If) or loop.orelse:
        raise TranslateError("the loop body must be one if/elif chain on gate.name")
    rows = []
    has_else = False
    node = loop.body[0]
    while True:
        t = node.test
        if not (isinstance(t, ast.Compare) and len(t.ops) == 1 and isinstance(t.ops[0], ast.Eq)
                and ast.unparse(t.left) == "gate.name"):
            raise TranslateError(f"line {t.lineno}: branch test must be gate.name == <name>")
        gname = T._gate_name_const(t.comparators[0])
        if gname not in ALLK:
            raise TranslateError(f"gate {gname} outside the vocabulary")
        rows += _ionq_kind(gname, _nodoc(node.body))
        if len(node.orelse) == 1 and isinstance(node.orelse[0], ast.If):
            node = node.orelse[0]
            continue
        if node.orelse:
            els = _nodoc(node.orelse)
            if len(els) == 1 and isinstance(els[0], ast.Raise):
                has_else = True
            else:
                raise TranslateError("the final else must raise")
        break
    return {"rows": rows, "rejects_other_gates": has_else}


def _ionq_kind(gname, stmts):
    """rows of one gate kind: [{"kind", "snap": pi4|None, "out": [...] | None (the branch raises), "new_phase": ang|None}]"""
    ar = ALLK[gname][1]
    tvars, theta = {}, None
    i = 0
    while i < len(stmts) and isinstance(stmts[i], ast.Assign):
        st = stmts[i]
        tg, val = st.targets[0], st.value
        src = ast.unparse(val)
        if isinstance(tg, ast.Name) and src == "gate.target_indices[0]":
            tvars[tg.id] = 0
        elif isinstance(tg, ast.Name) and src == "gate.params[0]":
            theta = tg.id
        elif isinstance(tg, ast.Tuple) and src == "gate.target_indices" and len(tg.elts) == ar:
            for j, e in enumerate(tg.elts):
                tvars[e.id] = j
        elif isinstance(tg, ast.Subscript):
            break
        else:
            raise TranslateError(f"line {st.lineno}: unsupported binding {ast.unparse(st)}")
        i += 1
    rest = stmts[i:]

    def actions(sts):
        out, newp = [], None
        body = _nodoc(sts)
        if len(body) == 1 and isinstance(body[0], ast.Raise):
            return None, None  # the branch rejects the gate
        for st in body:
            if isinstance(st, ast.Pass):
                continue
            if isinstance(st, ast.Expr) and isinstance(st.value, ast.Call) and ast.unparse(st.value.func) == "cg.append" \
                    and len(st.value.args) == 1 and isinstance(st.value.args[0], ast.Call):
                call = st.value.args[0]
                fname = T._factory(call.func, ALLK)
                if fname not in ("GPi", "GPi2", "MS"):
                    raise TranslateError(f"line {st.lineno}: only GPi/GPi2/MS may be appended")
                k, far, _nc, npar = ALLK[fname]
                if len(call.args) != far + npar or call.keywords:
                    raise TranslateError(f"line {st.lineno}: wrong arguments for {fname}")
                rs = []
                for a in call.args[:far]:
                    if not (isinstance(a, ast.Name) and a.id in tvars):
                        raise TranslateError(f"line {st.lineno}: qubit argument must be a target of the gate")
                    rs.append(tvars[a.id])
                if newp is not None:
                    # a gate appended after the frame update reads the updated frame: substitute
                    angs = [_subst(_turns(a, tvars, theta), newp).to_ang() for a in call.args[far:]]
                else:
                    angs = [_turns(a, tvars, theta).to_ang() for a in call.args[far:]]
                out.append({"name": fname, "roles": rs, "angles": angs})
            elif isinstance(st, ast.Assign) and isinstance(st.targets[0], ast.Subscript) \
                    and ast.unparse(st.targets[0]) in [f"phase[{n}]" for n in tvars]:
                if newp is not None:
                    raise TranslateError("two frame updates in one branch")
                which = tvars[st.targets[0].slice.id]
                newp = (which, _turns(st.value, tvars, theta))
            else:
                raise TranslateError(f"line {st.lineno}: unsupported statement {ast.unparse(st)}")
        return out, newp

    rows = []
    if len(rest) == 1 and isinstance(rest[0], ast.If):
        node = rest[0]
        while True:
            k = _close_call(node.test, theta)
            if k is None:
                raise TranslateError(f"line {node.test.lineno}: branch test must be self._is_close(theta, K)")
            out, newp = actions(node.body)
            rows.append(_row(gname, k.to_json(0)["pi4"], out, newp))
            if len(node.orelse) == 1 and isinstance(node.orelse[0], ast.If):
                node = node.orelse[0]
                continue
            out, newp = actions(node.orelse)
            rows.append(_row(gname, None, out, newp))
            break
    else:
        out, newp = actions(rest)
        rows.append(_row(gname, None, out, newp))
    return rows


def _subst(t: Turns, newp):
    which, val = newp
    c = t.p.get(which, 0)
    if c == 0:
        return t
    p = dict(t.p)
    p[which] = 0
    base = Turns(t.c, p, t.th)
    for _ in range(int(c)):
        base = base.add(val)
    if c != int(c) or c < 0:
        raise TranslateError("unsupported coefficient of the updated frame")
    return base


def _row(gname, snap, out, newp):
    return {"kind": gname, "snap": snap, "out": out,
            "new_phase": None if newp is None else {"target": newp[0], "ang": newp[1].to_ang()}}


# ----------------------------------------------------------------------------- Coq emission
def emit_coq(u1q, rzz, ionq, known_bad=()) -> str:
    out = ["(* GENERATED by translate/native.py from /repo -- do not edit *)",
           "From Coq Require Import ZArith List String.", "From QP Require Import Gates.", "From QPM Require Import Native.",
           "Import ListNotations.", "Open Scope string_scope.", ""]
    rows = []
    for b in u1q:
        th = f"(ang_pi4 ({b['snap']})%Z)" if b["snap"] is not None else "(ang_var 0)"
        tgt = f"mkG KU1q [0%nat] [{th}; ang_var 1]"
        body = "[" + tgt + "]" if b["body"] == "unchanged" else "[" + "; ".join(coq_gate(g) for g in b["body"]) + "]"
        if b["snap"] is not None and b["body"] != "unchanged":
            # a snapped branch may still use theta: evaluate its body at the snapped value as well
            pass
        snap = f"(Some ({b['snap']})%Z)" if b["snap"] is not None else "None"
        rows.append(f"  mkU1qBranch \"{b['name']}\" {snap} {body}")
    out.append("Definition u1q_branches : list u1q_branch :=\n  [" + ";\n   ".join(r.strip() for r in rows) + "].\n")
    kb = "; ".join(f'"{n}"' for n in known_bad)
    out.append(f"(* branches listed in KNOWN_FINDINGS.txt for C01 *)\nDefinition u1q_known_bad : list string := [{kb}].\n")
    w = "; ".join(coq_gate(g) for g in rzz["window"])
    bd = "; ".join(coq_gate(g) for g in rzz["body"])
    out.append(f"Definition cnotrz2rzz_window : list gate := [{w}].\nDefinition cnotrz2rzz_body : list gate := [{bd}].\n")
    irows = []
    for r in ionq["rows"]:
        snap = f"(Some ({r['snap']})%Z)" if r["snap"] is not None else "None"
        outs = "None" if r["out"] is None else "(Some [" + "; ".join(coq_gate(g) for g in r["out"]) + "])"
        npz = "None" if r["new_phase"] is None else f"(Some ({r['new_phase']['target']}%nat, {coq_ang(r['new_phase']['ang'])}))"
        irows.append(f"  mkIonqRow {ALLK[r['kind']][0]} {snap} {outs} {npz}")
    out.append("Definition ionq_rows : list ionq_row :=\n  [" + ";\n   ".join(x.strip() for x in irows) + "].\n")
    out.append(f"Definition ionq_rejects_other_gates : bool := {'true' if ionq['rejects_other_gates'] else 'false'}.\n")
    return "\n".join(out)


def run(gen_dir: str, json_path: str, known_bad=()):
    u1q, rzz, ionq = extract_u1q_normalize(), extract_cnotrz2rzz(), extract_ionq_native()
    with open(os.path.join(gen_dir, "nativegen.v"), "w") as f:
        f.write(emit_coq(u1q, rzz, ionq, known_bad))
    with open(json_path, "w") as f:
        json.dump({"u1q_normalize": u1q, "cnotrz2rzz": rzz, "ionq": ionq}, f, indent=1)
    return {"u1q_normalize": u1q, "cnotrz2rzz": rzz, "ionq": ionq}


if __name__ == "__main__":
    print(json.dumps({"u1q": extract_u1q_normalize(), "rzz": extract_cnotrz2rzz(), "ionq": extract_ionq_native()}, indent=1))
