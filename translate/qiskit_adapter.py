"""TR-qiskit: fail-closed translation of the quri-parts -> Qiskit converter (packages/qiskit/.../circuit/circuit_converter.py).

 * gate tables {gate name: qgate.<Class>} and the literal matrices of `_special_named_gate_matrix` are read from the
   source; `convert_gate` is evaluated symbolically for every modelled gate kind (which class, with which arguments);
 * `convert_circuit` must append every converted gate on `(*gate.control_indices, *gate.target_indices)` (source shape
   check), which fixes the qubit order;
 * Qiskit's gates are read through a CONTRACT (SXGate = SqrtX, SdgGate = Sdag, PhaseGate = U1, UGate = U3, CXGate / CZGate /
   CCXGate take controls first, to_matrix() is little-endian in the gate's own qubit list); validated numerically against
   the installed Qiskit on every run (corr_C03_qiskit.py).

Never evaluates repository code."""
from __future__ import annotations

import ast
import json
import os
from fractions import Fraction

from vlib.common import REPO
from translate.templates import KINDS, TranslateError, _angle, Env
from translate import templates as T
from translate.adapters import _name_sets
from translate.tables import _parse
from translate.braket_adapter import _gauss

PATH = os.path.join(REPO, "packages/qiskit/quri_parts/qiskit/circuit/circuit_converter.py")

QISKIT_CONTRACT = {
    "IGate": "Identity", "XGate": "X", "YGate": "Y", "ZGate": "Z", "HGate": "H", "SGate": "S", "SdgGate": "Sdag",
    "TGate": "T", "TdgGate": "Tdag", "SXGate": "SqrtX", "SXdgGate": "SqrtXdag", "RXGate": "RX", "RYGate": "RY",
    "RZGate": "RZ", "CXGate": "CNOT", "CZGate": "CZ", "SwapGate": "SWAP", "CCXGate": "TOFFOLI", "PhaseGate": "U1",
    "UGate": "U3",
}


def _qclass(node):
    if isinstance(node, ast.Attribute) and isinstance(node.value, ast.Name) and node.value.id == "qgate":
        return node.attr
    raise TranslateError(f"expected qgate.<Class>, got {ast.unparse(node)}")


def _tables(tree):
    cls_tabs, mat_tab = {}, {}
    for node in tree.body:
        if not (isinstance(node, ast.AnnAssign) and isinstance(node.target, ast.Name) and isinstance(node.value, ast.Dict)):
            continue
        name = node.target.id
        keys = []
        for k in node.value.keys:
            if isinstance(k, ast.Attribute) and isinstance(k.value, ast.Name) and k.value.id == "gate_names":
                keys.append(k.attr)
            elif isinstance(k, ast.Name):
                keys.append(k.id)      # ECR (a qiskit-only gate name imported by name)
            else:
                raise TranslateError(f"{name}: unsupported key {ast.unparse(k)}")
        vals = node.value.values
        if all(isinstance(v, ast.Attribute) for v in vals):
            cls_tabs[name] = {k: _qclass(v) for k, v in zip(keys, vals)}
        elif all(isinstance(v, ast.List) for v in vals):
            for k, v in zip(keys, vals):
                rows = []
                for r in v.elts:
                    row = []
                    for e in r.elts:
                        z = complex(ast.literal_eval(e))
                        re2, im2 = Fraction(z.real).limit_denominator(64) * 2, Fraction(z.imag).limit_denominator(64) * 2
                        if re2.denominator != 1 or im2.denominator != 1:
                            raise TranslateError(f"{name}[{k}]: entry {z} is not a half-integer Gaussian number")
                        row.append((int(re2), int(im2)))
                    rows.append(row)
                if len(rows) != 2 or any(len(r) != 2 for r in rows):
                    raise TranslateError(f"{name}[{k}]: not 2 x 2")
                mat_tab.setdefault(name, {})[k] = rows
        else:
            raise TranslateError(f"{name}: unsupported table")
    return cls_tabs, mat_tab


def extract():
    tree = _parse(PATH)
    T.ENV = Env(tree)
    preds = _name_sets()
    cls_tabs, mat_tab = _tables(tree)
    all_tabs = {**cls_tabs, **mat_tab}
    fns = {n.name: n for n in tree.body if isinstance(n, ast.FunctionDef)}
    if "convert_gate" not in fns or "convert_circuit" not in fns:
        raise TranslateError("convert_gate / convert_circuit not found")
    cc = ast.unparse(fns["convert_circuit"])
    for frag in ("for gate in circuit.gates:", "indices = (*gate.control_indices, *gate.target_indices)",
                 "qiskit_circuit.append(convert_gate(gate), qargs=indices)"):
        if frag not in cc:
            raise TranslateError(f"convert_circuit: expected `{frag}`")
    body = [s for s in fns["convert_gate"].body if not (isinstance(s, ast.Expr) and isinstance(s.value, ast.Constant))]

    def test(node, name):
        if isinstance(node, ast.UnaryOp) and isinstance(node.op, ast.Not):
            return not test(node.operand, name)
        if isinstance(node, ast.BoolOp) and isinstance(node.op, ast.And):
            return all(test(v, name) for v in node.values)
        if isinstance(node, ast.Call) and isinstance(node.func, ast.Name) and node.func.id in preds \
                and ast.unparse(node.args[0]) == "gate.name":
            return name in preds[node.func.id]
        if isinstance(node, ast.Compare) and len(node.ops) == 1 and ast.unparse(node.left) == "gate.name":
            r = node.comparators[0]
            if isinstance(node.ops[0], ast.In) and isinstance(r, ast.Name) and r.id in all_tabs:
                return name in all_tabs[r.id]
            if isinstance(node.ops[0], ast.Eq) and isinstance(r, ast.Attribute) and isinstance(r.value, ast.Name) \
                    and r.value.id == "gate_names":
                return name == r.attr
        raise TranslateError(f"unsupported test {ast.unparse(node)}")

    def arg(node, npar):
        src = ast.unparse(node)
        if isinstance(node, ast.Subscript) and ast.unparse(node.value) == "gate.params" and isinstance(node.slice, ast.Constant):
            if node.slice.value >= npar:
                raise TranslateError("parameter index out of range")
            return [node.slice.value]
        if isinstance(node, ast.Starred) and src == "*gate.params":
            return list(range(npar))
        aff = _angle(node, {})
        return [("pi4", aff.to_json(0)["pi4"])]

    def run(stmts, name, sig, env):
        ar, nc, npar = sig
        for st in stmts:
            if isinstance(st, ast.If):
                r = run(st.body if test(st.test, name) else st.orelse, name, sig, env)
                if r is not None:
                    return r
            elif isinstance(st, ast.Assign) and len(st.targets) == 1 and isinstance(st.targets[0], ast.Name):
                v = st.value
                if isinstance(v, ast.Subscript) and isinstance(v.value, ast.Name) and v.value.id in mat_tab \
                        and ast.unparse(v.slice) == "gate.name":
                    env[st.targets[0].id] = mat_tab[v.value.id][name]
                else:
                    return "other"      # string building for Pauli gates etc.: outside the modelled vocabulary
            elif isinstance(st, ast.Return):
                v = st.value
                if not isinstance(v, ast.Call):
                    raise TranslateError(f"unsupported return {ast.unparse(v)}")
                f = v.func
                if isinstance(f, ast.Subscript) and isinstance(f.value, ast.Name) and f.value.id in cls_tabs \
                        and ast.unparse(f.slice) == "gate.name":
                    ps = []
                    for a in v.args:
                        ps += arg(a, npar)
                    return {"cls": cls_tabs[f.value.id][name], "params": ps}
                if isinstance(f, ast.Attribute) and isinstance(f.value, ast.Name) and f.value.id == "qgate":
                    ps = []
                    for a in v.args:
                        ps += arg(a, npar)
                    return {"cls": f.attr, "params": ps}
                if ast.unparse(f) == "UnitaryGate":
                    inner = v.args[0]
                    if isinstance(inner, ast.Call) and ast.unparse(inner.func) == "np.array" and isinstance(inner.args[0], ast.Name) \
                            and inner.args[0].id in env:
                        return {"unitary": env[inner.args[0].id]}
                    return "other"
                raise TranslateError(f"unsupported return {ast.unparse(v)}")
            elif isinstance(st, ast.Raise):
                return "raise"
            elif isinstance(st, (ast.Pass, ast.Assert, ast.For, ast.AugAssign)):
                continue
            else:
                raise TranslateError(f"unsupported statement {type(st).__name__}")
        return None

    conv = {}
    for name, (ck, ar, nc, npar) in KINDS.items():
        r = run(body, name, (ar, nc, npar), {})
        if r is None:
            raise TranslateError(f"convert_gate({name}) falls through")
        conv[name] = r
    return conv


def emit(gen_dir, json_path):
    conv = extract()
    rows = []
    for name in sorted(conv):
        r = conv[name]
        k, ar, nc, npar = KINDS[name]
        if r in ("raise", "other"):
            raise TranslateError(f"convert_gate does not build a Qiskit gate for the modelled kind {name}")
        roles = "; ".join(str(x) for x in range(ar))     # qargs = (*controls, *targets)
        if "unitary" in r:
            (a, b), (c, d) = r["unitary"]
            rows.append(f"({k}, QMatrix (mkE (m2 {_gauss(*a)} {_gauss(*b)} {_gauss(*c)} {_gauss(*d)}) 2 [{roles}]%nat))")
            continue
        lib = QISKIT_CONTRACT.get(r["cls"])
        if lib is None:
            raise TranslateError(f"qgate.{r['cls']} has no contract")
        lk, lar, lnc, lnpar = KINDS[lib]
        if lar != ar or lnpar != len(r["params"]):
            raise TranslateError(f"{name} -> qgate.{r['cls']}: arity/parameter mismatch")
        angs = [f"ang_pi4 ({p[1]})%Z" if isinstance(p, tuple) else f"ang_var {p}" for p in r["params"]]
        rows.append(f"({k}, QLib (mkG {lk} [{roles}]%nat [{'; '.join(angs)}]))")
    src = ("(* GENERATED by translate/qiskit_adapter.py from /repo -- do not edit *)\n"
           "From Coq Require Import ZArith List.\nFrom QP Require Import Zw Lpoly FMat Local Gates.\nImport ListNotations.\n\n"
           "Inductive qiskit_gate := QLib (g : gate) | QMatrix (e : egate).\n\n"
           "Definition qiskit_conv : list (gkind * qiskit_gate) :=\n  [" + ";\n   ".join(rows) + "].\n")
    open(os.path.join(gen_dir, "qiskitconv.v"), "w").write(src)
    json.dump({"convert_gate": conv, "contract": QISKIT_CONTRACT}, open(json_path, "w"), indent=1)
    return conv


if __name__ == "__main__":
    print(json.dumps(extract(), indent=0))
