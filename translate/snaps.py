"""TR-snap: fail-closed translator of the rotation-snapping passes of transpile/fuse.py
(RX2NamedTranspiler, RY2NamedTranspiler, RZ2NamedTranspiler, ZeroRotationEliminationTranspiler):

    target = gate.target_indices[0]                      (optional)
    theta = gate.params[0] % (2.0 * np.pi)
    if self._is_close(theta, K0) or self._is_close(theta, K1): return [<named gates>]
    elif self._is_close(theta, K): return [<named gates>] [if self.<flag> else [gate]]
    ...
    else: return [gate]

Every branch becomes a row (class, rotation kind, K in units of pi/4, body); `[gate]` branches keep the gate and need no
obligation.  The Coq obligation of a row: body implements the rotation at the angle K pi/4 exactly (lib/Rsem.v:tmpl_check);
together with the 2 pi periodicity of the rotations (model/Period.v) this covers every angle congruent to K pi/4; the
test `|theta - K| < epsilon` is idealised to theta = K (the documented epsilon).  Never evaluates repository code."""
from __future__ import annotations

import ast
import json
import os

from translate import templates as T
from translate.templates import KINDS, TranslateError, coq_gate

PATH = os.path.join(T.TRANSPILE, "fuse.py")
CLASSES = ["RX2NamedTranspiler", "RY2NamedTranspiler", "RZ2NamedTranspiler", "ZeroRotationEliminationTranspiler"]


def _nodoc(body):
    return [s for s in body if not (isinstance(s, ast.Expr) and isinstance(s.value, ast.Constant))]


def _close(node):
    """self._is_close(theta, K) -> pi4 multiple of K"""
    if isinstance(node, ast.Call) and ast.unparse(node.func) == "self._is_close" and len(node.args) == 2 \
            and isinstance(node.args[0], ast.Name) and node.args[0].id == "theta":
        k = T._angle(node.args[1], {})
        if any(v != 0 for v in k.th.values()):
            raise TranslateError("snapping constant depends on a parameter")
        return k.to_json(0)["pi4"]
    raise TranslateError(f"line {node.lineno}: branch test must be self._is_close(theta, K): {ast.unparse(node)}")


def extract():
    tree = ast.parse(open(PATH).read(), PATH)
    T.ENV = T.Env(tree)
    rows = []
    found = set()
    for node in tree.body:
        if not isinstance(node, ast.ClassDef) or node.name not in CLASSES:
            continue
        found.add(node.name)
        funcs = {f.name: f for f in node.body if isinstance(f, ast.FunctionDef)}
        if set(funcs) != {"__init__", "target_gate_names", "_is_close", "decompose"}:
            raise TranslateError(f"{node.name}: unexpected methods {sorted(funcs)}")
        src = ast.unparse(_nodoc(funcs["_is_close"].body)[0])
        if src != "return abs(a - b) < self._epsilon":
            raise TranslateError(f"{node.name}._is_close is not |a - b| < epsilon")
        kinds = T._targets(funcs["target_gate_names"])
        if not kinds or any(k not in ("RX", "RY", "RZ") for k in kinds):
            raise TranslateError(f"{node.name}: targets {kinds}")
        body = _nodoc(funcs["decompose"].body)
        roles = {}
        i = 0
        seen_theta = False
        while i < len(body) and isinstance(body[i], ast.Assign):
            s = ast.unparse(body[i])
            if s == "target = gate.target_indices[0]":
                roles["target"] = 0
            elif s == "theta = gate.params[0] % (2.0 * np.pi)":
                seen_theta = True
            else:
                raise TranslateError(f"{node.name}: unsupported statement {s}")
            i += 1
        if not seen_theta or i != len(body) - 1 or not isinstance(body[i], ast.If):
            raise TranslateError(f"{node.name}.decompose: expected `theta = gate.params[0] % (2.0 * np.pi)` and one if-chain")

        def ret(stmts):
            stmts = _nodoc(stmts)
            if len(stmts) != 1 or not isinstance(stmts[0], ast.Return):
                raise TranslateError(f"{node.name}: a branch must be a single return")
            v = stmts[0].value
            if isinstance(v, ast.IfExp):   # [named...] if self._flag else [gate]
                if not (isinstance(v.test, ast.Attribute) and ast.unparse(v.test).startswith("self._")) \
                        or ast.unparse(v.orelse) != "[gate]":
                    raise TranslateError(f"{node.name}: unsupported conditional return {ast.unparse(v)}")
                v = v.body
            if not isinstance(v, ast.List):
                raise TranslateError(f"{node.name}: a branch must return a list literal")
            if ast.unparse(v) == "[gate]":
                return None
            return T._gate_list(v, roles, {}, 1, 0, 0, KINDS)

        chain = body[i]
        while True:
            t = chain.test
            tests = t.values if isinstance(t, ast.BoolOp) and isinstance(t.op, ast.Or) else [t]
            b = ret(chain.body)
            for tt in tests:
                k = _close(tt)
                if b is not None:
                    for kind in kinds:
                        rows.append({"cls": node.name, "kind": kind, "pi4": k, "body": b})
            if len(chain.orelse) == 1 and isinstance(chain.orelse[0], ast.If):
                chain = chain.orelse[0]
                continue
            if ret(chain.orelse) is not None:
                raise TranslateError(f"{node.name}: the final else must return [gate]")
            break
    if found != set(CLASSES):
        raise TranslateError(f"classes not found: {sorted(set(CLASSES) - found)}")
    return rows


def emit_coq(rows) -> str:
    out = ["(* GENERATED by translate/snaps.py from /repo -- do not edit *)",
           "From Coq Require Import ZArith List String.", "From QP Require Import Gates.", "Import ListNotations.",
           "Open Scope string_scope.", ""]
    rs = []
    for r in rows:
        body = "[" + "; ".join(coq_gate(g) for g in r["body"]) + "]"
        rs.append(f"(\"{r['cls']}\", {KINDS[r['kind']][0]}, ({r['pi4']})%Z, {body})")
    out.append("Definition snap_rows : list (string * gkind * Z * list gate) :=\n  [" + ";\n   ".join(rs) + "].\n")
    return "\n".join(out)


def run(gen_dir: str, json_path: str):
    rows = extract()
    with open(os.path.join(gen_dir, "snaps.v"), "w") as f:
        f.write(emit_coq(rows))
    with open(json_path, "w") as f:
        json.dump(rows, f, indent=1)
    return rows


if __name__ == "__main__":
    for r in extract():
        print(r["cls"], r["kind"], r["pi4"], [(g["name"], g["roles"]) for g in r["body"]])
