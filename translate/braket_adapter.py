"""TR-braket: fail-closed translation of the quri-parts -> Braket converter (packages/braket/.../circuit/__init__.py).

 * gate tables {gate name: Gate.<Class>}, the `_U_gate_matrix` lambdas (which Braket gate with which argument list) and the
   literal matrices of `_special_named_gate_matrix` (handed to Gate.Unitary) are read from the source;
 * `convert_gate` is evaluated symbolically for every modelled gate kind: which entry is used, with which parameters, and
   in which order the qubits are handed to Instruction(...);
 * the literal matrices (entries a + b j with 2a, 2b integers) are translated into the exact matrix ring of lib/Lpoly.v;
 * Braket's own gates are read through a CONTRACT (Gate.V = SqrtX, Gate.Si = Sdag, CNot/CZ/CCNot take controls first,
   Gate.U(theta, phi, lam) is the library's U3, PhaseShift is U1, Rx/Ry/Rz are exp(-i theta/2 sigma)); the contract is
   validated numerically against the installed Braket (`to_matrix`, big-endian) on every run (corr_C03_braket.py).

Never evaluates repository code."""
from __future__ import annotations

import ast
import json
import os
from fractions import Fraction

from vlib.common import REPO
from translate.templates import KINDS, TranslateError, Affine, _angle, Env
from translate import templates as T
from translate.adapters import _name_sets
from translate.tables import _parse

PATH = os.path.join(REPO, "packages/braket/quri_parts/braket/circuit/__init__.py")

# Braket gate class -> (library kind, how the Braket argument list maps onto the library parameters)
BRAKET_CONTRACT = {
    "I": "Identity", "X": "X", "Y": "Y", "Z": "Z", "H": "H", "S": "S", "Si": "Sdag", "T": "T", "Ti": "Tdag",
    "V": "SqrtX", "Vi": "SqrtXdag", "Rx": "RX", "Ry": "RY", "Rz": "RZ", "CNot": "CNOT", "CZ": "CZ", "Swap": "SWAP",
    "CCNot": "TOFFOLI", "PhaseShift": "U1", "U": "U3",
}


def _gate_class(node):
    """Gate.X -> 'X'"""
    if isinstance(node, ast.Attribute) and isinstance(node.value, ast.Name) and node.value.id == "Gate":
        return node.attr
    raise TranslateError(f"expected Gate.<Class>, got {ast.unparse(node)}")


def _tables(tree):
    cls_tabs, lam_tab, mat_tab = {}, {}, {}
    for node in tree.body:
        if not (isinstance(node, ast.AnnAssign) and isinstance(node.target, ast.Name) and isinstance(node.value, ast.Dict)):
            continue
        name = node.target.id
        keys = []
        for k in node.value.keys:
            if not (isinstance(k, ast.Attribute) and isinstance(k.value, ast.Name) and k.value.id == "gate_names"):
                raise TranslateError(f"{name}: key must be gate_names.X")
            keys.append(k.attr)
        vals = node.value.values
        if all(isinstance(v, ast.Attribute) for v in vals):
            cls_tabs[name] = {k: _gate_class(v) for k, v in zip(keys, vals)}
        elif all(isinstance(v, ast.Lambda) for v in vals):
            for k, v in zip(keys, vals):
                if [a.arg for a in v.args.args] != ["angles"] or not isinstance(v.body, ast.Call):
                    raise TranslateError(f"{name}[{k}]: unsupported lambda")
                cls = _gate_class(v.body.func)
                args = []
                for a in v.body.args:
                    if isinstance(a, ast.Starred) and ast.unparse(a.value) == "angles":
                        args.append("*angles")
                    else:
                        aff = _angle(a, {})
                        args.append(aff.to_json(0)["pi4"])
                lam_tab.setdefault(name, {})[k] = {"cls": cls, "args": args}
        elif all(isinstance(v, ast.List) for v in vals):
            for k, v in zip(keys, vals):
                rows = []
                for r in v.elts:
                    if not isinstance(r, ast.List):
                        raise TranslateError(f"{name}[{k}]: not a matrix literal")
                    row = []
                    for e in r.elts:
                        z = ast.literal_eval(e)
                        z = complex(z)
                        re2, im2 = Fraction(z.real).limit_denominator(64) * 2, Fraction(z.imag).limit_denominator(64) * 2
                        if re2.denominator != 1 or im2.denominator != 1:
                            raise TranslateError(f"{name}[{k}]: entry {z} is not a half-integer Gaussian number")
                        row.append((int(re2), int(im2)))
                    rows.append(row)
                if len(rows) != 2 or any(len(r) != 2 for r in rows):
                    raise TranslateError(f"{name}[{k}]: not 2 x 2")
                mat_tab.setdefault(name, {})[k] = rows
        else:
            raise TranslateError(f"{name}: unsupported table")
    return cls_tabs, lam_tab, mat_tab


def extract():
    tree = _parse(PATH)
    T.ENV = Env(tree)
    preds = _name_sets()
    cls_tabs, lam_tab, mat_tab = _tables(tree)
    all_tabs = {**cls_tabs, **lam_tab, **mat_tab}
    fn = [n for n in tree.body if isinstance(n, ast.FunctionDef) and n.name == "convert_gate"]
    if len(fn) != 1:
        raise TranslateError("convert_gate not found")
    body = [s for s in fn[0].body if not (isinstance(s, ast.Expr) and isinstance(s.value, ast.Constant))]

    def test(node, name):
        if isinstance(node, ast.UnaryOp) and isinstance(node.op, ast.Not):
            return not test(node.operand, name)
        if isinstance(node, ast.Call) and isinstance(node.func, ast.Name) and node.func.id in preds \
                and ast.unparse(node.args[0]) == "gate.name":
            return name in preds[node.func.id]
        if isinstance(node, ast.Compare) and len(node.ops) == 1 and isinstance(node.ops[0], ast.In) \
                and ast.unparse(node.left) == "gate.name" and isinstance(node.comparators[0], ast.Name) \
                and node.comparators[0].id in all_tabs:
            return name in all_tabs[node.comparators[0].id]
        raise TranslateError(f"unsupported test {ast.unparse(node)}")

    def run(stmts, name, sig, env):
        ar, nc, npar = sig
        for st in stmts:
            if isinstance(st, ast.If):
                r = run(st.body if test(st.test, name) else st.orelse, name, sig, env)
                if r is not None:
                    return r
            elif isinstance(st, ast.Assign) and len(st.targets) == 1 and isinstance(st.targets[0], ast.Name):
                v = st.value
                tgt = st.targets[0].id
                src = ast.unparse(v)
                if isinstance(v, ast.Call) and isinstance(v.func, ast.Subscript) and isinstance(v.func.value, ast.Name) \
                        and ast.unparse(v.func.slice) == "gate.name":
                    tab = v.func.value.id
                    args = [ast.unparse(a) for a in v.args]
                    if tab in cls_tabs and args == ["*gate.params"]:
                        env[tgt] = {"cls": cls_tabs[tab][name], "params": list(range(npar))}
                    elif tab in lam_tab and args == ["gate.params"]:
                        lam = lam_tab[tab][name]
                        ps = []
                        for a in lam["args"]:
                            ps += list(range(npar)) if a == "*angles" else [("pi4", a)]
                        env[tgt] = {"cls": lam["cls"], "params": ps}
                    else:
                        raise TranslateError(f"unsupported gate construction {src}")
                elif isinstance(v, ast.Subscript) and isinstance(v.value, ast.Name) and v.value.id in mat_tab \
                        and ast.unparse(v.slice) == "gate.name":
                    env[tgt] = {"matrix": mat_tab[v.value.id][name]}
                elif src.startswith("Gate.Unitary(np.array(") and isinstance(v, ast.Call):
                    inner = v.args[0].args[0]
                    if isinstance(inner, ast.Name) and inner.id in env and "matrix" in env[inner.id]:
                        env[tgt] = {"unitary": env[inner.id]["matrix"]}
                    else:
                        return "matrix-gate"   # UnitaryMatrix: outside the modelled vocabulary
                else:
                    raise TranslateError(f"unsupported assignment {src}")
            elif isinstance(st, ast.Return):
                v = st.value
                if not (isinstance(v, ast.Call) and ast.unparse(v.func) == "Instruction" and len(v.args) == 2
                        and isinstance(v.args[0], ast.Name) and v.args[0].id in env):
                    raise TranslateError(f"unsupported return {ast.unparse(v)}")
                q = ast.unparse(v.args[1])
                if q == "gate.target_indices":
                    roles = list(range(nc, ar))
                elif q == "tuple(gate.control_indices) + tuple(gate.target_indices)":
                    roles = list(range(ar))
                else:
                    raise TranslateError(f"unsupported qubit argument {q}")
                return dict(env[v.args[0].id], roles=roles)
            elif isinstance(st, ast.Raise):
                return "raise"
            elif isinstance(st, (ast.Pass, ast.Assert)):
                continue
            else:
                raise TranslateError(f"unsupported statement {type(st).__name__}")
        return None

    conv = {}
    for name, (ck, ar, nc, npar) in KINDS.items():
        r = run(body, name, (ar, nc, npar), {})
        if r is None:
            raise TranslateError(f"convert_gate({name}) falls through")
        conv[name] = r
    return conv


def _gauss(re2, im2):
    """(re2 + i im2) / 2 as an LP numerator over (1/sqrt2)^2"""
    return f"(lp_add (cz ({re2})%Z) (lp_mul ci (cz ({im2})%Z)))"


def emit(gen_dir, json_path):
    conv = extract()
    rows = []
    for name in sorted(conv):
        r = conv[name]
        k, ar, nc, npar = KINDS[name]
        if r in ("raise", "matrix-gate"):
            raise TranslateError(f"convert_gate does not build a Braket gate for the modelled kind {name}")
        roles = "; ".join(str(x) for x in r["roles"])
        if "unitary" in r:
            (a, b), (c, d) = r["unitary"]
            rows.append(f"({k}, BMatrix (mkE (m2 {_gauss(*a)} {_gauss(*b)} {_gauss(*c)} {_gauss(*d)}) 2 [{roles}]%nat))")
            continue
        lib = BRAKET_CONTRACT.get(r["cls"])
        if lib is None:
            raise TranslateError(f"Braket gate Gate.{r['cls']} has no contract")
        lk, lar, lnc, lnpar = KINDS[lib]
        if lar != ar or lnpar != len(r["params"]):
            raise TranslateError(f"{name} -> Gate.{r['cls']}: arity/parameter mismatch")
        angs = []
        for p in r["params"]:
            angs.append(f"ang_pi4 ({p[1]})%Z" if isinstance(p, tuple) else f"ang_var {p}")
        rows.append(f"({k}, BLib (mkG {lk} [{roles}]%nat [{'; '.join(angs)}]))")
    src = ("(* GENERATED by translate/braket_adapter.py from /repo -- do not edit *)\n"
           "From Coq Require Import ZArith List.\nFrom QP Require Import Zw Lpoly FMat Local Gates.\nImport ListNotations.\n\n"
           "Inductive braket_gate := BLib (g : gate) | BMatrix (e : egate).\n\n"
           "(* (library kind, what convert_gate builds for the canonical gate of that kind: a Braket gate read through the\n"
           "   contract, or Gate.Unitary of a literal matrix of the converter) *)\n"
           "Definition braket_conv : list (gkind * braket_gate) :=\n  [" + ";\n   ".join(rows) + "].\n")
    open(os.path.join(gen_dir, "braketconv.v"), "w").write(src)
    json.dump({"convert_gate": conv, "contract": BRAKET_CONTRACT}, open(json_path, "w"), indent=1)
    return conv


if __name__ == "__main__":
    print(json.dumps(extract(), indent=0))
