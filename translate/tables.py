"""TR-tab: fail-closed translators of literal tables.

* core/operator/pauli.py       : _pauli_products_map
* core/operator/conjugation.py : the two Clifford conjugation tables
* circuit/gate_names.py        : CLIFFORD_GATE_NAMES and the other name sets
* circuit/inverse.py           : dagger tables
Emits Coq definitions + a JSON twin for the correspondence harnesses; never evaluates repo code."""
from __future__ import annotations

import ast
import hashlib
import json
import os

from vlib.common import REPO
from translate.templates import KINDS, TranslateError

PAULI = {"X": "PX", "Y": "PY", "Z": "PZ"}


def _parse(path):
    return ast.parse(open(path).read(), path)


def _find_assign(tree, name):
    for node in tree.body:
        if isinstance(node, ast.AnnAssign) and isinstance(node.target, ast.Name) and node.target.id == name:
            return node.value
        if isinstance(node, ast.Assign) and any(isinstance(t, ast.Name) and t.id == name for t in node.targets):
            return node.value
    raise TranslateError(f"assignment to {name} not found")


def _single_pauli(node, allow_zero=False):
    if isinstance(node, ast.Attribute) and isinstance(node.value, ast.Name) and node.value.id == "SinglePauli" \
            and node.attr in PAULI:
        return node.attr
    if allow_zero and isinstance(node, ast.Constant) and node.value == 0:
        return None
    raise TranslateError(f"line {node.lineno}: expected SinglePauli.X/Y/Z, got {ast.dump(node)}")


def _gate_name(node, consts=None):
    if isinstance(node, ast.Attribute) and isinstance(node.value, ast.Name) and node.value.id == "gate_names":
        return node.attr
    if isinstance(node, ast.Name) and consts is not None and node.id in consts:
        return consts[node.id]
    if isinstance(node, ast.Name):
        return node.id
    raise TranslateError(f"line {node.lineno}: expected a gate name, got {ast.dump(node)}")


def _unit(node):
    """1.0 / -1.0 / 1.0j / -1.0j  ->  exponent of i"""
    neg = False
    if isinstance(node, ast.UnaryOp) and isinstance(node.op, ast.USub):
        neg, node = True, node.operand
    if isinstance(node, ast.Constant):
        v = node.value
        if v == 1:
            return 2 if neg else 0
        if v == 1j:
            return 3 if neg else 1
    raise TranslateError(f"line {node.lineno}: expected +-1 or +-1j")


ZW = {0: "zw1", 1: "zwi", 2: "(zw_opp zw1)", 3: "(zw_opp zwi)"}


# ---------------------------------------------------------------------------------- pauli products
def pauli_products():
    path = os.path.join(REPO, "packages/core/quri_parts/core/operator/pauli.py")
    val = _find_assign(_parse(path), "_pauli_products_map")
    if not isinstance(val, ast.Dict):
        raise TranslateError("_pauli_products_map is not a dict literal")
    tab = {}
    for k, v in zip(val.keys, val.values):
        if not isinstance(k, ast.Tuple) or len(k.elts) != 2:
            raise TranslateError("key must be a pair")
        q, p = _single_pauli(k.elts[0]), _single_pauli(k.elts[1])
        if isinstance(v, ast.Constant) and v.value is None:
            tab[(q, p)] = None
        elif isinstance(v, ast.Tuple) and len(v.elts) == 2:
            tab[(q, p)] = (_single_pauli(v.elts[0]), _unit(v.elts[1]))
        else:
            raise TranslateError("value must be None or (SinglePauli, unit)")
    if len(tab) != 9:
        raise TranslateError("expected 9 entries")
    return tab


def emit_pauli_products(tab) -> str:
    rows = []
    for (q, p), v in sorted(tab.items()):
        rhs = "None" if v is None else f"Some ({PAULI[v[0]]}, {ZW[v[1]]})"
        rows.append(f"  | {PAULI[q]}, {PAULI[p]} => {rhs}")
    return ("Definition pauli_products_map : ptable := fun q p =>\n  match q, p with\n" + "\n".join(rows) +
            "\n  end.\n")


# ---------------------------------------------------------------------------------- conjugation tables
def conjugation_tables():
    path = os.path.join(REPO, "packages/core/quri_parts/core/operator/conjugation.py")
    tree = _parse(path)
    t1 = _find_assign(tree, "_single_Pauli_1q_Clifford_gate_conjugation_table")
    t2 = _find_assign(tree, "_single_Pauli_2q_Clifford_gate_conjugation_table")
    tab1, tab2 = {}, {}
    for k, v in zip(t1.keys, t1.values):
        p = _single_pauli(k)
        if not isinstance(v, ast.Dict):
            raise TranslateError("1q table row is not a dict")
        for gk, gv in zip(v.keys, v.values):
            g = _gate_name(gk)
            if g not in KINDS or KINDS[g][1] != 1:
                raise TranslateError(f"1q table: gate {g} not a modelled single-qubit kind")
            if not isinstance(gv, ast.Tuple) or len(gv.elts) != 2:
                raise TranslateError("1q entry must be (SinglePauli, sign)")
            s = _unit(gv.elts[1])
            tab1[(p, g)] = (_single_pauli(gv.elts[0]), s)
    for k, v in zip(t2.keys, t2.values):
        p = _single_pauli(k)
        for gk, gv in zip(v.keys, v.values):
            g = _gate_name(gk)
            if g not in KINDS or KINDS[g][1] != 2:
                raise TranslateError(f"2q table: gate {g} not a modelled two-qubit kind")
            if not isinstance(gv, ast.Dict):
                raise TranslateError("2q entry must be a dict with q1/q2")
            for rk, rv in zip(gv.keys, gv.values):
                if not (isinstance(rk, ast.Constant) and rk.value in ("q1", "q2")):
                    raise TranslateError("2q role key must be 'q1' or 'q2'")
                if not isinstance(rv, ast.Tuple) or len(rv.elts) != 2:
                    raise TranslateError("2q entry must be a pair")
                tab2[(p, g, rk.value)] = (_single_pauli(rv.elts[0], True), _single_pauli(rv.elts[1], True))
    # control flow of clifford_gate_conjugation: fingerprint of the normalised AST
    fn = [n for n in tree.body if isinstance(n, ast.FunctionDef) and n.name == "clifford_gate_conjugation"]
    if len(fn) != 1:
        raise TranslateError("clifford_gate_conjugation not found")
    body = [s for s in fn[0].body if not (isinstance(s, ast.Expr) and isinstance(s.value, ast.Constant))]
    fp = hashlib.sha256("\n".join(ast.dump(s) for s in body).encode()).hexdigest()[:16]
    return tab1, tab2, fp


def clifford_names():
    path = os.path.join(REPO, "packages/circuit/quri_parts/circuit/gate_names.py")
    val = _find_assign(_parse(path), "CLIFFORD_GATE_NAMES")
    if not isinstance(val, ast.Set):
        raise TranslateError("CLIFFORD_GATE_NAMES is not a set literal")
    return [_gate_name(e) for e in val.elts]


def emit_conjugation(tab1, tab2, names) -> str:
    def opt(p):
        return "None" if p is None else f"Some {PAULI[p]}"
    out = ["Definition conj1_tab (p : pauli) (k : gkind) : option (pauli * Zw) :=\n  match p, k with"]
    for (p, g), (r, s) in sorted(tab1.items()):
        out.append(f"  | {PAULI[p]}, {KINDS[g][0]} => Some ({PAULI[r]}, {ZW[s]})")
    out.append("  | _, _ => None\n  end.\n")
    out.append("Definition conj2_tab (p : pauli) (k : gkind) (q1 : bool) : option (option pauli * option pauli) :=\n"
               "  match p, k, q1 with")
    for (p, g, role), (a, b) in sorted(tab2.items()):
        out.append(f"  | {PAULI[p]}, {KINDS[g][0]}, {'true' if role == 'q1' else 'false'} => Some ({opt(a)}, {opt(b)})")
    out.append("  | _, _, _ => None\n  end.\n")
    ks = "; ".join(KINDS[n][0] for n in names if n in KINDS)
    out.append(f"Definition clifford_names : list gkind := [{ks}].\n")
    return "\n".join(out)


def run_c06(gen_dir, json_path):
    pp = pauli_products()
    t1, t2, fp = conjugation_tables()
    names = clifford_names()
    unknown = [n for n in names if n not in KINDS and n != "Pauli"]
    if unknown:
        raise TranslateError(f"Clifford names outside the modelled vocabulary: {unknown}")
    src = ["(* GENERATED by translate/tables.py from /repo -- do not edit *)",
           "From Coq Require Import ZArith List.", "From QP Require Import Zw Gates.",
           "From QPM Require Import Pauli.", "Import ListNotations.", "",
           emit_pauli_products(pp), emit_conjugation(t1, t2, names)]
    with open(os.path.join(gen_dir, "conjtab.v"), "w") as f:
        f.write("\n".join(src))
    js = {"pauli_products": {f"{q}{p}": v for (q, p), v in pp.items()},
          "conj1": {f"{p}:{g}": v for (p, g), v in t1.items()},
          "conj2": {f"{p}:{g}:{r}": v for (p, g, r), v in t2.items()},
          "clifford_names": names, "fingerprint": fp}
    json.dump(js, open(json_path, "w"), indent=1)
    return js


# ---------------------------------------------------------------------------------- measurement rotations (C07)
def measurement_rotations():
    """pauli -> list of gate names appended by bitwise_commuting_pauli_measurement_circuit"""
    path = os.path.join(REPO, "packages/core/quri_parts/core/measurement/bitwise_commuting_pauli.py")
    tree = _parse(path)
    fn = [n for n in tree.body if isinstance(n, ast.FunctionDef) and n.name == "bitwise_commuting_pauli_measurement_circuit"]
    if len(fn) != 1:
        raise TranslateError("bitwise_commuting_pauli_measurement_circuit not found")
    loops = [n for n in fn[0].body if isinstance(n, ast.For)]
    if len(loops) != 2:
        raise TranslateError("expected two for-loops (pauli_map construction, circuit construction)")
    # first loop: consistency check raising ValueError on a conflicting Pauli at one index
    src1 = ast.unparse(loops[0])
    if "raise ValueError" not in src1 or "pauli_map[index] != pauli" not in src1 or "pauli_map[index] = pauli" not in src1:
        raise TranslateError("unexpected pauli_map construction loop")
    loop = loops[1]
    if ast.unparse(loop.iter) != "pauli_map.items()" or ast.unparse(loop.target) != "(index, pauli)":
        raise TranslateError("unexpected circuit construction loop header")
    rot = {"X": [], "Y": [], "Z": []}
    if len(loop.body) != 1 or not isinstance(loop.body[0], ast.If):
        raise TranslateError("circuit loop body must be one if/elif chain")
    node = loop.body[0]
    seen = set()
    while node is not None:
        t = node.test
        if not (isinstance(t, ast.Compare) and isinstance(t.ops[0], ast.Eq) and ast.unparse(t.left) == "pauli"):
            raise TranslateError("unexpected test in circuit loop")
        p = _single_pauli(t.comparators[0])
        if p in seen:
            raise TranslateError("duplicate branch")
        seen.add(p)
        for st in node.body:
            if not (isinstance(st, ast.Expr) and isinstance(st.value, ast.Call) and
                    ast.unparse(st.value.func) == "circuit.append" and len(st.value.args) == 1):
                raise TranslateError("branch must only append gates")
            call = st.value.args[0]
            if not (isinstance(call, ast.Call) and isinstance(call.func, ast.Name) and
                    [ast.unparse(a) for a in call.args] == ["index"]):
                raise TranslateError("appended gate must be Name(index)")
            if call.func.id not in KINDS or KINDS[call.func.id][1] != 1 or KINDS[call.func.id][3] != 0:
                raise TranslateError(f"unsupported rotation gate {call.func.id}")
            rot[p].append(call.func.id)
        if len(node.orelse) == 1 and isinstance(node.orelse[0], ast.If):
            node = node.orelse[0]
        elif not node.orelse:
            node = None
        else:
            raise TranslateError("unexpected else branch")
    return rot


def run_c07(gen_dir, json_path):
    rot = measurement_rotations()
    rows = "\n".join(f"  | {PAULI[p]} => [{'; '.join(KINDS[g][0] for g in gs)}]" for p, gs in sorted(rot.items()))
    src = ("(* GENERATED by translate/tables.py from /repo -- do not edit *)\n"
           "From Coq Require Import List.\nFrom QP Require Import Gates.\nFrom QPM Require Import Pauli Measure.\n"
           "Import ListNotations.\n\n"
           "Definition meas_rot : rot_table := fun p =>\n  match p with\n" + rows + "\n  end.\n")
    open(os.path.join(gen_dir, "measrot.v"), "w").write(src)
    json.dump({"rotations": rot}, open(json_path, "w"), indent=1)
    return rot
