"""TR-qiskit-rev / TR-cirq-rev: fail-closed translation of the reverse converters
  packages/qiskit/.../circuit/qiskit_circuit_converter.py : circuit_from_qiskit
  packages/cirq/.../circuit/cirq_circuit_converter.py     : circuit_from_cirq

Both are a loop over the backend operations whose body is one if/elif chain on the operation's key (Qiskit: instruction
name; Cirq: the gate object), each branch adding `QuantumGate(name=..., target_indices=(...), control_indices=(...),
params=(...))`.  For every key a branch accepts, the row (backend gate read through the CONTRACT, library gate built) is
extracted: the library name from the table the branch indexes, the qubit roles from the `q[i]` / `operation.qubits[i]`
references (controls first, as the library's own matrix convention has it), the parameters from `instruction.params` /
`gate._rads`.  A key is attributed to the first branch that accepts it (the order of the chain).  The matrix fallbacks
(`else:` -> UnitaryMatrix), `measure` and the non-library ECR gate are outside the modelled vocabulary and are recorded as
skipped; they are decided by the sweeps.  Contracts (validated against the installed backends on every run by
corr_C03_rev.py): Qiskit instruction names id,x,...,p,u1,u2,u3,u,cx,cz,swap,ccx (controls first); Cirq table keys as in
the forward contract plus CCX = TOFFOLI and the classes Rx, Ry, Rz (exp(-i rads/2 sigma), `str(gate)[:2].upper()` is the
library name).  Never evaluates repository code."""
from __future__ import annotations

import ast
import json
import os

from vlib.common import REPO
from translate.templates import KINDS, TranslateError
from translate.tables import _parse
from translate.cirq_adapter import CIRQ_CONTRACT, _norm

QISKIT_PATH = os.path.join(REPO, "packages/qiskit/quri_parts/qiskit/circuit/qiskit_circuit_converter.py")
CIRQ_PATH = os.path.join(REPO, "packages/cirq/quri_parts/cirq/circuit/cirq_circuit_converter.py")

QISKIT_NAME_CONTRACT = {
    "id": "Identity", "x": "X", "y": "Y", "z": "Z", "h": "H", "s": "S", "sdg": "Sdag", "t": "T", "tdg": "Tdag",
    "sx": "SqrtX", "sxdg": "SqrtXdag", "rx": "RX", "ry": "RY", "rz": "RZ", "cx": "CNOT", "cz": "CZ", "swap": "SWAP",
    "ccx": "TOFFOLI", "p": "U1", "u1": "U1", "u2": "U2", "u3": "U3", "u": "U3",
}
CIRQ_REV_CONTRACT = dict(CIRQ_CONTRACT, CCX="TOFFOLI", Rx="RX", Ry="RY", Rz="RZ")
OUTSIDE = {"ecr", "measure"}


def _key_of(node, mode):
    if mode == "qiskit":
        if isinstance(node, ast.Constant) and isinstance(node.value, str):
            return node.value
        raise TranslateError(f"expected a string key, got {ast.unparse(node)}")
    return _norm(ast.unparse(node))


def _tables(tree, mode):
    tabs = {}
    for node in tree.body:
        if isinstance(node, ast.AnnAssign) and isinstance(node.target, ast.Name) and isinstance(node.value, ast.Dict):
            d = {}
            for k, v in zip(node.value.keys, node.value.values):
                if isinstance(v, ast.Attribute) and isinstance(v.value, ast.Name) and v.value.id == "gate_names":
                    d[_key_of(k, mode)] = v.attr
                elif isinstance(v, ast.Name):
                    d[_key_of(k, mode)] = v.id     # a non-library name (ECR)
                else:
                    raise TranslateError(f"{node.target.id}: value must be gate_names.X")
            tabs[node.target.id] = d
    return tabs


def _chain(fn, mode):
    """the loop over operations and its if/elif chain"""
    loops = [s for s in fn.body if isinstance(s, ast.For)]
    if len(loops) != 1:
        raise TranslateError("expected exactly one loop over the operations")
    loop = loops[0]
    hdr = f"for {ast.unparse(loop.target)} in {ast.unparse(loop.iter)}"
    want = {"qiskit": "for (instruction, q, r) in qiskit_circuit", "cirq": "for operation in cirq_circuit.all_operations()"}[mode]
    if hdr != want:
        raise TranslateError(f"unexpected loop header `{hdr}`")
    body = list(loop.body)
    keyvar = {"qiskit": ("gname", "instruction.name"), "cirq": ("gate", "operation.gate")}[mode]
    if not (isinstance(body[0], ast.Assign) and ast.unparse(body[0]) == f"{keyvar[0]} = {keyvar[1]}"):
        raise TranslateError(f"expected `{keyvar[0]} = {keyvar[1]}`")
    if len(body) != 2 or not isinstance(body[1], ast.If):
        raise TranslateError("the loop body must be the key assignment followed by one if/elif chain")
    branches, node = [], body[1]
    while True:
        branches.append((node.test, node.body))
        if len(node.orelse) == 1 and isinstance(node.orelse[0], ast.If):
            node = node.orelse[0]
        else:
            branches.append((None, node.orelse))
            break
    return keyvar[0], branches


def _qref(node, mode):
    s = ast.unparse(node)
    if mode == "qiskit":
        if isinstance(node, ast.Call) and ast.unparse(node.func) == "qindex" and len(node.args) == 1:
            a = node.args[0]
            if isinstance(a, ast.Subscript) and ast.unparse(a.value) == "q" and isinstance(a.slice, ast.Constant):
                return a.slice.value
    else:
        if isinstance(node, ast.Attribute) and node.attr == "x" and isinstance(node.value, ast.Subscript) \
                and ast.unparse(node.value.value) == "operation.qubits" and isinstance(node.value.slice, ast.Constant):
            return node.value.slice.value
    raise TranslateError(f"unsupported qubit reference {s}")


def _extract(path, fname, mode):
    tree = _parse(path)
    tabs = _tables(tree, mode)
    fns = [n for n in tree.body if isinstance(n, ast.FunctionDef) and n.name == fname]
    if len(fns) != 1:
        raise TranslateError(f"{fname} not found")
    fn = fns[0]
    if mode == "qiskit":
        q = [n for n in fn.body if isinstance(n, ast.FunctionDef) and n.name == "qindex"]
        if len(q) != 1 or ast.unparse(q[0].body[-1]) != "return int(qiskit_circuit.find_bit(bit).index)":
            raise TranslateError("qindex is not `int(qiskit_circuit.find_bit(bit).index)`")
    keyvar, branches = _chain(fn, mode)
    rows, skipped, seen = [], [], set()

    def keys_of(test):
        """keys a branch accepts -> (keys, kind of test)"""
        if isinstance(test, ast.Compare) and len(test.ops) == 1 and ast.unparse(test.left) == keyvar:
            r = test.comparators[0]
            if isinstance(test.ops[0], ast.In) and isinstance(r, ast.Name) and r.id in tabs:
                return list(tabs[r.id])
            if isinstance(test.ops[0], ast.In) and isinstance(r, ast.List):
                return [_key_of(e, mode) for e in r.elts]
            if isinstance(test.ops[0], ast.Eq):
                return [_key_of(r, mode)]
        if mode == "cirq" and isinstance(test, ast.Call) and ast.unparse(test.func) == "isinstance" \
                and ast.unparse(test.args[0]) == keyvar and isinstance(test.args[1], ast.Tuple):
            return ["class:" + ast.unparse(e) for e in test.args[1].elts]
        raise TranslateError(f"unsupported test {ast.unparse(test)}")

    for test, body in branches:
        if test is None:
            # final else: matrix fallback, must build a UnitaryMatrix gate
            if "UnitaryMatrix(" not in "".join(ast.unparse(s) for s in body):
                raise TranslateError("the final else must build a UnitaryMatrix gate")
            continue
        keys = [k for k in keys_of(test) if k not in seen]
        seen.update(keys)
        if all(k in OUTSIDE for k in keys):
            skipped += keys
            continue
        if not (len(body) == 1 and isinstance(body[0], ast.Expr) and isinstance(body[0].value, ast.Call)
                and ast.unparse(body[0].value.func) == "circuit.add_gate" and len(body[0].value.args) == 1):
            raise TranslateError(f"branch `{ast.unparse(test)}` must be a single circuit.add_gate(...)")
        call = body[0].value.args[0]
        if not (isinstance(call, ast.Call) and ast.unparse(call.func) == "QuantumGate" and not call.args):
            raise TranslateError(f"branch `{ast.unparse(test)}` must add QuantumGate(name=..., ...)")
        kw = {k.arg: k.value for k in call.keywords}
        if set(kw) - {"name", "target_indices", "control_indices", "params"}:
            raise TranslateError(f"unsupported QuantumGate keywords {sorted(kw)}")
        nm = kw["name"]
        if isinstance(nm, ast.Subscript) and isinstance(nm.value, ast.Name) and nm.value.id in tabs \
                and ast.unparse(nm.slice) == keyvar:
            def name_of(k, t=tabs[nm.value.id]):
                if k not in t:
                    raise TranslateError(f"key {k} is accepted by `{ast.unparse(test)}` but missing from the table indexed")
                return t[k]
        elif mode == "cirq" and ast.unparse(nm) == "str(operation.gate)[:2].upper()":
            def name_of(k):
                return k.split(":")[1].upper()     # contract: str(cirq.Rx(...)) starts with "Rx"
        else:
            raise TranslateError(f"unsupported name expression {ast.unparse(nm)}")

        def refs(node):
            if node is None:
                return []
            if not isinstance(node, ast.Tuple):
                raise TranslateError(f"indices must be a literal tuple, got {ast.unparse(node)}")
            return [_qref(e, mode) for e in node.elts]
        tq, cq = refs(kw.get("target_indices")), refs(kw.get("control_indices"))
        ps = kw.get("params")
        if ps is None:
            par = []
        else:
            s = ast.unparse(ps)
            par = {"(instruction.params[0],)": [0], "(*instruction.params,)": "all", "(gate._rads,)": [0]}.get(s)
            if par is None:
                raise TranslateError(f"unsupported params {s}")
        for k in keys:
            if k in OUTSIDE:
                skipped.append(k)
                continue
            rows.append({"key": k, "name": name_of(k), "controls": cq, "targets": tq, "params": par})
    return rows, skipped


def _emit(rows, contract, ident, header, gen_dir, fname):
    out = []
    for r in rows:
        ckey = r["key"].split(":")[1] if r["key"].startswith("class:") else r["key"]
        lib = contract.get(ckey)
        if lib is None:
            raise TranslateError(f"backend gate `{r['key']}` has no contract")
        bk, bar, bnc, bnpar = KINDS[lib]
        if r["name"] not in KINDS:
            raise TranslateError(f"library name {r['name']} outside the vocabulary")
        fk, far, fnc, fnpar = KINDS[r["name"]]
        roles = r["controls"] + r["targets"]
        par = list(range(bnpar)) if r["params"] == "all" else r["params"]
        if far != bar or sorted(roles) != list(range(far)) or len(r["controls"]) != fnc or len(par) != fnpar:
            raise TranslateError(f"{r['key']} -> {r['name']}: arity / control count / parameter mismatch")
        out.append(f"(mkG {bk} [{'; '.join(str(i) for i in range(bar))}]%nat [{'; '.join(f'ang_var {i}' for i in range(bnpar))}], "
                   f"mkG {fk} [{'; '.join(str(x) for x in roles)}]%nat [{'; '.join(f'ang_var {i}' for i in par)}])")
    src = (f"(* GENERATED by translate/reverse_adapters.py from /repo -- do not edit *)\n"
           "From Coq Require Import ZArith List.\nFrom QP Require Import Gates.\nImport ListNotations.\n\n"
           f"(* {header} *)\n"
           f"Definition {ident} : list (gate * gate) :=\n  [" + ";\n   ".join(out) + "].\n")
    open(os.path.join(gen_dir, fname), "w").write(src)


def emit_qiskit(gen_dir, json_path):
    rows, skipped = _extract(QISKIT_PATH, "circuit_from_qiskit", "qiskit")
    _emit(rows, QISKIT_NAME_CONTRACT, "qiskit_rev",
          "(the Qiskit instruction read through the name contract; the library gate circuit_from_qiskit adds for it)",
          gen_dir, "qiskitrev.v")
    json.dump({"rows": rows, "skipped": skipped, "contract": QISKIT_NAME_CONTRACT}, open(json_path, "w"), indent=1)
    return rows


def emit_cirq(gen_dir, json_path):
    rows, skipped = _extract(CIRQ_PATH, "circuit_from_cirq", "cirq")
    _emit(rows, CIRQ_REV_CONTRACT, "cirq_rev",
          "(the Cirq gate read through the contract; the library gate circuit_from_cirq adds for it)", gen_dir, "cirqrev.v")
    json.dump({"rows": rows, "skipped": skipped, "contract": CIRQ_REV_CONTRACT}, open(json_path, "w"), indent=1)
    return rows


if __name__ == "__main__":
    for r in _extract(QISKIT_PATH, "circuit_from_qiskit", "qiskit")[0]:
        print(r)
    for r in _extract(CIRQ_PATH, "circuit_from_cirq", "cirq")[0]:
        print(r)
