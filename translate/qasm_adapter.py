"""TR-qasm: fail-closed translation of the OpenQASM 3 exporter (packages/openqasm/.../circuit/__init__.py).

`convert_gate_to_qasm_line` is evaluated symbolically for every modelled gate kind: the f-string it returns is turned
into (stdgates mnemonic, parameter list, qubit operand list).  The gate symbol tables are read from the source.  The
mnemonics are read through a CONTRACT - the definitions of OpenQASM 3's stdgates.inc (id, x, y, z, h, s, sdg, t, tdg, sx,
rx, ry, rz, cx, cz, swap, ccx with controls first; u1 = phase gate, u2(phi, lam) = u3(pi/2, phi, lam), u3 the generic
one-qubit gate) - which is validated on every run by parsing one-line programs with qiskit.qasm3 and comparing the
resulting matrices (corr_C03_qasm.py).  Never evaluates repository code."""
from __future__ import annotations

import ast
import json
import os

from vlib.common import REPO
from translate.templates import KINDS, TranslateError
from translate.adapters import _name_sets
from translate.tables import _parse

PATH = os.path.join(REPO, "packages/openqasm/quri_parts/openqasm/circuit/__init__.py")

QASM_CONTRACT = {
    "id": "Identity", "x": "X", "y": "Y", "z": "Z", "h": "H", "s": "S", "sdg": "Sdag", "t": "T", "tdg": "Tdag", "sx": "SqrtX",
    "rx": "RX", "ry": "RY", "rz": "RZ", "cx": "CNOT", "cz": "CZ", "swap": "SWAP", "ccx": "TOFFOLI",
    "u1": "U1", "u2": "U2", "u3": "U3",
}


def _tables(tree):
    tabs, sets = {}, {}
    for node in tree.body:
        if not (isinstance(node, ast.AnnAssign) and isinstance(node.target, ast.Name)):
            continue
        v = node.value
        if isinstance(v, ast.Dict) and all(isinstance(x, ast.Constant) and isinstance(x.value, str) for x in v.values):
            d = {}
            for k, val in zip(v.keys, v.values):
                if not (isinstance(k, ast.Attribute) and isinstance(k.value, ast.Name) and k.value.id == "gate_names"):
                    raise TranslateError(f"{node.target.id}: key must be gate_names.X")
                d[k.attr] = val.value
            tabs[node.target.id] = d
        elif isinstance(v, ast.Set):
            sets[node.target.id] = {e.attr for e in v.elts if isinstance(e, ast.Attribute)}
    return tabs, sets


class Q:
    """symbolic qubit reference: role index"""
    def __init__(self, role):
        self.role = role


class P:
    """symbolic parameter(s)"""
    def __init__(self, idx):
        self.idx = idx   # list of parameter indices, rendered ', '-joined


def extract():
    tree = _parse(PATH)
    preds = _name_sets()
    tabs, sets = _tables(tree)
    all_tabs = {**tabs, **sets}
    fns = {n.name: n for n in tree.body if isinstance(n, ast.FunctionDef)}
    for need in ("convert_gate_to_qasm_line", "_ref_q_str", "convert_to_qasm"):
        if need not in fns:
            raise TranslateError(f"{need} not found")
    ret = fns["_ref_q_str"].body[-1]
    shape = None
    if isinstance(ret, ast.Return) and isinstance(ret.value, ast.JoinedStr):
        shape = [("c", v.value) if isinstance(v, ast.Constant) else ("f", ast.unparse(v.value), v.conversion, v.format_spec)
                 for v in ret.value.values]
    if shape != [("f", "_QUBIT_VAR_NAME", -1, None), ("c", "["), ("f", "index", -1, None), ("c", "]")]:
        raise TranslateError("_ref_q_str is not f'{_QUBIT_VAR_NAME}[{index}]'")
    src = ast.unparse(fns["convert_to_qasm"])
    for frag in ("for gate in circuit.gates:", "text_io.write(convert_gate_to_qasm_line(gate))"):
        if frag not in src:
            raise TranslateError(f"convert_to_qasm: expected `{frag}`")
    body = [s for s in fns["convert_gate_to_qasm_line"].body if not (isinstance(s, ast.Expr) and isinstance(s.value, ast.Constant))]

    def test(node, name):
        if isinstance(node, ast.UnaryOp) and isinstance(node.op, ast.Not):
            return not test(node.operand, name)
        if isinstance(node, ast.Call) and isinstance(node.func, ast.Name) and node.func.id in preds \
                and ast.unparse(node.args[0]) == "gate.name":
            return name in preds[node.func.id]
        if isinstance(node, ast.Compare) and len(node.ops) == 1 and isinstance(node.ops[0], ast.In) \
                and ast.unparse(node.left) == "gate.name" and isinstance(node.comparators[0], ast.Name) \
                and node.comparators[0].id in all_tabs:
            return name in all_tabs[node.comparators[0].id]
        raise TranslateError(f"unsupported test {ast.unparse(node)}")

    def ev(node, name, sig, env):
        ar, nc, npar = sig
        s = ast.unparse(node)
        if isinstance(node, ast.Subscript) and isinstance(node.value, ast.Name) and node.value.id in tabs \
                and ast.unparse(node.slice) == "gate.name":
            return tabs[node.value.id][name]
        if s == "_ref_q_str(gate.target_indices[0])":
            return Q(nc)
        if isinstance(node, ast.ListComp) and s == "[_ref_q_str(i) for i in tuple(gate.control_indices) + tuple(gate.target_indices)]":
            return [Q(r) for r in range(ar)]
        if isinstance(node, ast.JoinedStr):
            parts = []
            for v in node.values:
                if isinstance(v, ast.Constant):
                    parts.append(v.value)
                elif isinstance(v, ast.FormattedValue):
                    inner = v.value
                    si = ast.unparse(inner)
                    if isinstance(inner, ast.Name) and inner.id in env:
                        parts.append(env[inner.id])
                    elif si == "gate.params[0]":
                        parts.append(P([0]))
                    elif si == "', '.join((str(p) for p in gate.params))":
                        parts.append(P(list(range(npar))))
                    else:
                        raise TranslateError(f"unsupported f-string field {si}")
                else:
                    raise TranslateError("unsupported f-string part")
            return parts
        raise TranslateError(f"unsupported expression {s}")

    def flatten(parts):
        out = []
        for p in parts:
            if isinstance(p, list):
                out += flatten(p)
            else:
                out.append(p)
        return out

    def run(stmts, name, sig, env):
        for st in stmts:
            if isinstance(st, ast.If):
                r = run(st.body if test(st.test, name) else st.orelse, name, sig, env)
                if r is not None:
                    return r
            elif isinstance(st, ast.Assign) and len(st.targets) == 1:
                tgt = st.targets[0]
                val = ev(st.value, name, sig, env)
                if isinstance(tgt, ast.Name):
                    env[tgt.id] = val
                elif isinstance(tgt, ast.Tuple) and isinstance(val, list) and len(val) == len(tgt.elts):
                    for t, v in zip(tgt.elts, val):
                        env[t.id] = v
                else:
                    raise TranslateError(f"unsupported assignment {ast.unparse(st)}")
            elif isinstance(st, ast.Return):
                parts = flatten(ev(st.value, name, sig, env))
                # expected shape: mnemonic [ "(" params ")" ] " " q ("," " " q)* ";"
                text = ""
                qs, ps = [], []
                for p in parts:
                    if isinstance(p, Q):
                        text += "<q>"
                        qs.append(p.role)
                    elif isinstance(p, P):
                        text += "<p>"
                        ps += p.idx
                    else:
                        text += p
                mn = text.split("(")[0].split(" ")[0]
                expect = mn + ("(<p>)" if ps else "") + " " + ", ".join("<q>" for _ in qs) + ";"
                if text != expect or not mn:
                    raise TranslateError(f"{name}: line template `{text}` is not `mnemonic[(params)] operands;`")
                return {"mnemonic": mn, "params": ps, "roles": qs}
            elif isinstance(st, ast.Raise):
                return "raise"
            elif isinstance(st, ast.Assert):
                continue
            else:
                raise TranslateError(f"unsupported statement {type(st).__name__}")
        return None

    conv = {}
    for name, (ck, ar, nc, npar) in KINDS.items():
        r = run(body, name, (ar, nc, npar), {})
        if r is None:
            r = "raise"   # falls to the final `assert False`
        conv[name] = r
    return conv


def emit(gen_dir, json_path):
    conv = extract()
    rows, rejected = [], []
    for name in sorted(conv):
        r = conv[name]
        k, ar, nc, npar = KINDS[name]
        if r == "raise":
            rejected.append(k)
            continue
        lib = QASM_CONTRACT.get(r["mnemonic"])
        if lib is None:
            raise TranslateError(f"mnemonic `{r['mnemonic']}` has no contract")
        lk, lar, lnc, lnpar = KINDS[lib]
        if lar != ar or lnpar != len(r["params"]) or len(r["roles"]) != ar:
            raise TranslateError(f"{name} -> {r['mnemonic']}: arity/parameter mismatch")
        angs = "; ".join(f"ang_var {i}" for i in r["params"])
        rows.append(f"({k}, mkG {lk} [{'; '.join(str(x) for x in r['roles'])}]%nat [{angs}])")
    src = ("(* GENERATED by translate/qasm_adapter.py from /repo -- do not edit *)\n"
           "From Coq Require Import ZArith List.\nFrom QP Require Import Gates.\nImport ListNotations.\n\n"
           "(* (library kind, the stdgates.inc gate named on the exported line, in the library's vocabulary) *)\n"
           "Definition qasm_conv : list (gkind * gate) :=\n  [" + ";\n   ".join(rows) + "].\n\n"
           "(* kinds the exporter rejects (NotImplementedError) *)\n"
           f"Definition qasm_rejected : list gkind := [{'; '.join(rejected)}].\n")
    open(os.path.join(gen_dir, "qasmconv.v"), "w").write(src)
    json.dump({"convert_gate": conv, "contract": QASM_CONTRACT}, open(json_path, "w"), indent=1)
    return conv


if __name__ == "__main__":
    print(json.dumps(extract(), indent=0))
