"""TR-templ: fail-closed translator of GateKindDecomposer subclasses whose ``decompose`` is a
straight-line template (role bindings + a list literal of gate-factory calls).

Emits (a) a JSON description used by the correspondence harness and (b) Coq definitions
``tmpl_<Class> : template``.  Never evaluates repository code."""
from __future__ import annotations

import ast
import json
import os
from fractions import Fraction

from vlib.common import REPO

TRANSPILE = os.path.join(REPO, "packages/circuit/quri_parts/circuit/transpile")
FILES = [
    os.path.join(TRANSPILE, "gate_kind_decomposer.py"),
    os.path.join(TRANSPILE, "gateset.py"),
    os.path.join(TRANSPILE, "fuse.py"),
]
# GateKindDecomposer subclasses that are NOT plain templates (handled by other translators)
NON_TEMPLATE = {
    "NormalizeRotationTranspiler", "RX2NamedTranspiler", "RY2NamedTranspiler", "RZ2NamedTranspiler",
    "ZeroRotationEliminationTranspiler",
}

KINDS = {
    "Identity": ("KI", 1, 0, 0), "X": ("KX", 1, 0, 0), "Y": ("KY", 1, 0, 0), "Z": ("KZ", 1, 0, 0),
    "H": ("KH", 1, 0, 0), "S": ("KS", 1, 0, 0), "Sdag": ("KSdag", 1, 0, 0),
    "SqrtX": ("KSqrtX", 1, 0, 0), "SqrtXdag": ("KSqrtXdag", 1, 0, 0),
    "SqrtY": ("KSqrtY", 1, 0, 0), "SqrtYdag": ("KSqrtYdag", 1, 0, 0),
    "T": ("KT", 1, 0, 0), "Tdag": ("KTdag", 1, 0, 0),
    "RX": ("KRX", 1, 0, 1), "RY": ("KRY", 1, 0, 1), "RZ": ("KRZ", 1, 0, 1),
    "U1": ("KU1", 1, 0, 1), "U2": ("KU2", 1, 0, 2), "U3": ("KU3", 1, 0, 3),
    "CNOT": ("KCNOT", 2, 1, 0), "CZ": ("KCZ", 2, 1, 0), "SWAP": ("KSWAP", 2, 0, 0),
    "TOFFOLI": ("KTOFFOLI", 3, 2, 0),
}  # name -> (coq kind, arity, n_controls, n_params)
# native gates of quri_parts.quantinuum.circuit / quri_parts.ionq.circuit (only used by the native transpiler files)
NATIVE_KINDS = {
    "U1q": ("KU1q", 1, 0, 2), "ZZ": ("KZZ", 2, 0, 0), "RZZ": ("KRZZ", 2, 0, 1),
    "XX": ("KXX", 2, 0, 1), "GPi": ("KGPi", 1, 0, 1), "GPi2": ("KGPi2", 1, 0, 1), "MS": ("KMS", 2, 0, 2),
}
ALLK = {**KINDS, **NATIVE_KINDS}
NATIVE_FILES = [
    os.path.join(REPO, "packages/quantinuum/quri_parts/quantinuum/circuit/transpile/quantinuum_native_transpiler.py"),
    os.path.join(REPO, "packages/ionq/quri_parts/ionq/circuit/transpile/ionq_native_transpiler.py"),
]
NATIVE_NON_TEMPLATE = {"U1qNormalizeWithRZTranspiler"}


class TranslateError(Exception):
    pass


def _fail(node, msg):
    raise TranslateError(f"line {getattr(node, 'lineno', '?')}: {msg}")


class Env:
    """Import aliases of one module: local gate-name constants, aliases of the gates module, pi."""

    def __init__(self, tree):
        self.gate_name_consts = {}   # local name -> gate name
        self.gates_aliases = {"gates"}
        self.gate_names_aliases = {"gate_names"}
        self.pi_names = set()
        self.np_aliases = set()
        self.factory_names = set()   # gate factories imported by name (from quri_parts.circuit import RZ, ...)
        for node in tree.body:
            if isinstance(node, ast.ImportFrom):
                mod = node.module or ""
                for a in node.names:
                    local = a.asname or a.name
                    if mod.endswith("gate_names"):
                        self.gate_name_consts[local] = a.name
                    elif a.name == "gates" and mod.endswith("circuit"):
                        self.gates_aliases.add(local)
                    elif a.name == "gate_names" and mod.endswith("circuit"):
                        self.gate_names_aliases.add(local)
                    elif a.name == "pi" and mod in ("math", "numpy"):
                        self.pi_names.add(local)
                    elif a.name in ALLK and a.asname is None and mod.startswith("quri_parts.") and mod.endswith(".circuit"):
                        self.factory_names.add(local)
            elif isinstance(node, ast.Import):
                for a in node.names:
                    if a.name in ("numpy", "math"):
                        self.np_aliases.add(a.asname or a.name)
                    elif a.name.endswith(".gate_names") and a.asname:
                        self.gate_names_aliases.add(a.asname)


ENV = None


def _attr_chain(node):
    """gate.target_indices -> ('gate','target_indices')"""
    if isinstance(node, ast.Attribute) and isinstance(node.value, ast.Name):
        return node.value.id, node.attr
    return None


def _gate_name_const(node):
    ch = _attr_chain(node)
    if ch and ch[0] in ENV.gate_names_aliases:
        return ch[1]
    if isinstance(node, ast.Name) and node.id in ENV.gate_name_consts:
        return ENV.gate_name_consts[node.id]
    _fail(node, "expected gate_names.X")


class Affine:
    """c0 + cpi*pi + sum th[i]*theta_i with Fraction coefficients."""

    def __init__(self, c0=0, cpi=0, th=None):
        self.c0, self.cpi, self.th = Fraction(c0), Fraction(cpi), dict(th or {})

    def add(self, o, s=1):
        th = dict(self.th)
        for k, v in o.th.items():
            th[k] = th.get(k, 0) + s * v
        return Affine(self.c0 + s * o.c0, self.cpi + s * o.cpi, th)

    def scale(self, f):
        return Affine(self.c0 * f, self.cpi * f, {k: v * f for k, v in self.th.items()})

    def is_const(self):
        return self.cpi == 0 and all(v == 0 for v in self.th.values())

    def to_json(self, nparams):
        if self.c0 != 0:
            raise TranslateError(f"angle has a non-pi constant {self.c0}")
        k = self.cpi * 4
        if k.denominator != 1:
            raise TranslateError(f"angle {self.cpi}*pi is not a multiple of pi/4")
        th = []
        for i in range(nparams):
            c = Fraction(self.th.get(i, 0))
            if c.denominator != 1:
                raise TranslateError("non-integer parameter coefficient")
            th.append(int(c))
        return {"pi4": int(k), "th": th}


def _angle(node, params) -> Affine:
    if isinstance(node, ast.Constant) and isinstance(node.value, (int, float)):
        return Affine(c0=Fraction(node.value).limit_denominator(10 ** 9))
    if isinstance(node, ast.Attribute):
        ch = _attr_chain(node)
        if ch and ch[0] in ENV.np_aliases and ch[1] == "pi":
            return Affine(cpi=1)
        _fail(node, f"unsupported attribute {ast.dump(node)}")
    if isinstance(node, ast.Name):
        if node.id in ENV.pi_names:
            return Affine(cpi=1)
        if node.id in params:
            return Affine(th={params[node.id]: Fraction(1)})
        _fail(node, f"unknown name {node.id} in angle")
    if isinstance(node, ast.Subscript):  # gate.params[i]
        kind, i = _index_source(node, 0)
        if kind != "param" or i >= params.get("__nparams__", 0):
            _fail(node, "only gate.params[i] may be subscripted in an angle")
        return Affine(th={i: Fraction(1)})
    if isinstance(node, ast.UnaryOp) and isinstance(node.op, ast.USub):
        return _angle(node.operand, params).scale(-1)
    if isinstance(node, ast.UnaryOp) and isinstance(node.op, ast.UAdd):
        return _angle(node.operand, params)
    if isinstance(node, ast.BinOp):
        a, b = _angle(node.left, params), _angle(node.right, params)
        if isinstance(node.op, ast.Add):
            return a.add(b)
        if isinstance(node.op, ast.Sub):
            return a.add(b, -1)
        if isinstance(node.op, ast.Mult):
            if a.is_const():
                return b.scale(a.c0)
            if b.is_const():
                return a.scale(b.c0)
            _fail(node, "non-linear angle")
        if isinstance(node.op, ast.Div):
            if b.is_const() and b.c0 != 0:
                return a.scale(1 / b.c0)
            _fail(node, "division by non-constant")
    _fail(node, f"unsupported angle expression {ast.dump(node)}")


def _targets(func: ast.FunctionDef):
    body = [s for s in func.body if not (isinstance(s, ast.Expr) and isinstance(s.value, ast.Constant))]
    if len(body) != 1 or not isinstance(body[0], ast.Return) or not isinstance(body[0].value, (ast.List, ast.Tuple)):
        _fail(func, "target_gate_names must return a list literal")
    return [_gate_name_const(e) for e in body[0].value.elts]


def _index_source(node, n_controls):
    """gate.target_indices[0] -> role index"""
    if isinstance(node, ast.Subscript):
        ch = _attr_chain(node.value)
        idx = node.slice
        if ch and ch[0] == "gate" and isinstance(idx, ast.Constant) and isinstance(idx.value, int):
            if ch[1] == "target_indices":
                return ("role", n_controls + idx.value)
            if ch[1] == "control_indices":
                if idx.value >= n_controls:
                    _fail(node, "control index out of range for target kind")
                return ("role", idx.value)
            if ch[1] == "params":
                return ("param", idx.value)
    _fail(node, f"unsupported binding source {ast.dump(node)}")


def _factory(call_func, kinds):
    """gates.X / X (imported by name) -> X"""
    ch = _attr_chain(call_func)
    if ch and ch[0] in ENV.gates_aliases and ch[1] in kinds:
        return ch[1]
    if isinstance(call_func, ast.Name) and call_func.id in ENV.factory_names and call_func.id in kinds:
        return call_func.id
    return None


def _decompose(func: ast.FunctionDef, arity, n_controls, nparams, kinds=KINDS):
    roles, params = {}, {}
    stmts = [s for s in func.body if not (isinstance(s, ast.Expr) and isinstance(s.value, ast.Constant))]
    if not stmts or not isinstance(stmts[-1], ast.Return):
        _fail(func, "decompose must end with return")

    def bind(name_node, src):
        if not isinstance(name_node, ast.Name):
            _fail(name_node, "binding target must be a name")
        kind, i = src
        if kind == "role":
            if i >= arity:
                _fail(name_node, "role index exceeds arity")
            roles[name_node.id] = i
        else:
            if i >= nparams:
                _fail(name_node, "param index exceeds parameter count")
            params[name_node.id] = i

    for st in stmts[:-1]:
        if not isinstance(st, ast.Assign) or len(st.targets) != 1:
            _fail(st, "only simple assignments allowed before return")
        tgt, val = st.targets[0], st.value
        if isinstance(tgt, ast.Name):
            bind(tgt, _index_source(val, n_controls))
        elif isinstance(tgt, ast.Tuple):
            if isinstance(val, ast.Tuple):
                if len(val.elts) != len(tgt.elts):
                    _fail(st, "tuple arity mismatch")
                for t, v in zip(tgt.elts, val.elts):
                    bind(t, _index_source(v, n_controls))
            else:
                ch = _attr_chain(val)
                if not ch or ch[0] != "gate":
                    _fail(st, "unsupported tuple unpack source")
                if ch[1] == "target_indices":
                    if len(tgt.elts) != arity - n_controls:
                        _fail(st, "unpack count != number of targets")
                    for j, t in enumerate(tgt.elts):
                        bind(t, ("role", n_controls + j))
                elif ch[1] == "control_indices":
                    if len(tgt.elts) != n_controls:
                        _fail(st, "unpack count != number of controls")
                    for j, t in enumerate(tgt.elts):
                        bind(t, ("role", j))
                elif ch[1] == "params":
                    if len(tgt.elts) != nparams:
                        _fail(st, "unpack count != number of params")
                    for j, t in enumerate(tgt.elts):
                        bind(t, ("param", j))
                else:
                    _fail(st, f"unsupported attribute gate.{ch[1]}")
        else:
            _fail(st, "unsupported assignment target")
    ret = stmts[-1].value
    if not isinstance(ret, ast.List):
        _fail(stmts[-1], "decompose must return a list literal")
    return _gate_list(ret, roles, params, arity, n_controls, nparams, kinds)


def _gate_list(ret: ast.List, roles, params, arity, n_controls, nparams, kinds):
    """list literal of gate-factory calls -> [{"name", "roles", "angles"}]"""
    out = []
    for call in ret.elts:
        if not isinstance(call, ast.Call) or call.keywords:
            _fail(call, "list element must be a positional gate-factory call")
        fname = _factory(call.func, kinds)
        if fname is None:
            _fail(call, f"unsupported gate factory {ast.dump(call.func)}")
        ch = (None, fname)
        kind, ar, _nc, npar = kinds[fname]
        if len(call.args) != ar + npar:
            _fail(call, f"wrong argument count for {ch[1]}")
        rs = []
        for a in call.args[:ar]:
            if isinstance(a, ast.Name) and a.id in roles:
                rs.append(roles[a.id])
                continue
            if isinstance(a, ast.Subscript):  # gate.target_indices[i] / gate.control_indices[i] written in place
                kind_, i = _index_source(a, n_controls)
                if kind_ == "role" and i < arity:
                    rs.append(i)
                    continue
            _fail(a, "qubit argument must be a bound role name")
        angs = [_angle(a, dict(params, __nparams__=nparams)).to_json(nparams) for a in call.args[ar:]]
        out.append({"name": ch[1], "roles": rs, "angles": angs})
    return out


def extract(files=None, skip=NON_TEMPLATE, base="GateKindDecomposer", kinds=KINDS):
    res = {}
    for path in files or FILES:
        tree = ast.parse(open(path).read(), path)
        global ENV
        ENV = Env(tree)
        for node in tree.body:
            if not isinstance(node, ast.ClassDef):
                continue
            bases = [b.id for b in node.bases if isinstance(b, ast.Name)]
            if base not in bases or node.name in skip:
                continue
            funcs = {f.name: f for f in node.body if isinstance(f, ast.FunctionDef)}
            extra = set(funcs) - {"target_gate_names", "decompose"}
            if extra:
                raise TranslateError(f"{node.name}: unexpected methods {sorted(extra)}")
            if "target_gate_names" not in funcs or "decompose" not in funcs:
                raise TranslateError(f"{node.name}: missing target_gate_names/decompose")
            try:
                tnames = _targets(funcs["target_gate_names"])
                if not tnames:
                    raise TranslateError("empty target list")
                sigs = set()
                for t in tnames:
                    if t not in kinds:
                        raise TranslateError(f"target kind {t} outside the modelled vocabulary")
                    sigs.add(kinds[t][1:])
                if len(sigs) != 1:
                    raise TranslateError("target kinds with different signatures")
                ar, nc, npar = sigs.pop()
                body = _decompose(funcs["decompose"], ar, nc, npar, kinds)
            except TranslateError as e:
                raise TranslateError(f"{os.path.basename(path)}:{node.name}: {e}") from None
            res[node.name] = {"targets": tnames, "body": body, "file": os.path.relpath(path, REPO),
                              "arity": ar, "n_controls": nc, "nparams": npar}
    if not res:
        raise TranslateError("no template classes found")
    return res


# ----------------------------------------------------------------------------- Coq emission
def coq_ang(a) -> str:
    th = "; ".join(f"({c})%Z" for c in a["th"])
    return f"(mkAng ({a['pi4']})%Z [{th}])"


def coq_gate(g) -> str:
    rs = "; ".join(str(r) for r in g["roles"])
    angs = "; ".join(coq_ang(a) for a in g["angles"])
    return f"mkG {ALLK[g['name']][0]} [{rs}]%nat [{angs}]"


def emit_coq(tmpls: dict, modname: str) -> str:
    out = ["(* GENERATED by translate/templates.py from /repo -- do not edit *)",
           "From Coq Require Import ZArith List String.",
           "From QP Require Import Gates.", "From QPM Require Import Transpile.",
           "Import ListNotations.", "Open Scope string_scope.", ""]
    names = []
    for cname in sorted(tmpls):
        t = tmpls[cname]
        body = ";\n     ".join(coq_gate(g) for g in t["body"])
        targets = "; ".join(ALLK[n][0] for n in t["targets"])
        out.append(f"Definition tmpl_{cname} : template :=\n  mkT \"{cname}\" [{targets}]\n    [{body}].\n")
        names.append(f"tmpl_{cname}")
    out.append(f"Definition {modname}_all : list template :=\n  [" + ";\n   ".join(names) + "].\n")
    return "\n".join(out)


def run(ctx_gen_dir: str, json_path: str, modname: str = "templates") -> dict:
    t = extract()
    with open(os.path.join(ctx_gen_dir, f"{modname}.v"), "w") as f:
        f.write(emit_coq(t, modname))
    with open(json_path, "w") as f:
        json.dump(t, f, indent=1)
    return t


def run_native(ctx_gen_dir: str, json_path: str) -> dict:
    """templates of the Quantinuum / IonQ native transpiler files (vocabulary extended by the native gates)"""
    t = extract(NATIVE_FILES, NATIVE_NON_TEMPLATE, kinds=ALLK)
    with open(os.path.join(ctx_gen_dir, "native.v"), "w") as f:
        f.write(emit_coq(t, "native"))
    with open(json_path, "w") as f:
        json.dump(t, f, indent=1)
    return t


if __name__ == "__main__":
    import sys
    print(json.dumps(extract(), indent=1)[:3000])
    print(emit_coq(extract(), "templates")[:2000], file=sys.stderr)


# ----------------------------------------------------------------------------- adjacent-gate fusers
class _UF:
    def __init__(self):
        self.p = {}

    def find(self, x):
        self.p.setdefault(x, x)
        while self.p[x] != x:
            self.p[x] = self.p[self.p[x]]
            x = self.p[x]
        return x

    def union(self, a, b):
        self.p[self.find(a)] = self.find(b)


def _seq_attr(node):
    """seq[i].attr -> (i, attr)"""
    if isinstance(node, ast.Attribute) and isinstance(node.value, ast.Subscript) \
            and isinstance(node.value.value, ast.Name) and node.value.value.id == "seq" \
            and isinstance(node.value.slice, ast.Constant):
        return node.value.slice.value, node.attr
    return None


def extract_fusers(path=None):
    """AdjacentGateFuser subclasses whose window is fixed by name/index equalities and whose fuse() is a
    list literal of factory calls: returns {class: {"window": [...], "body": [...], "n_roles": k}}"""
    path = path or os.path.join(TRANSPILE, "fuse.py")
    tree = ast.parse(open(path).read(), path)
    global ENV
    ENV = Env(tree)
    out = {}
    for node in tree.body:
        if not isinstance(node, ast.ClassDef) or node.name != "CNOTHCNOTFusingTranspiler":
            continue
        funcs = {f.name: f for f in node.body if isinstance(f, ast.FunctionDef)}
        cnt = [s for s in funcs["target_gate_count"].body if isinstance(s, ast.Return)][0].value
        if not (isinstance(cnt, ast.Constant) and isinstance(cnt.value, int)):
            raise TranslateError("target_gate_count must return an int literal")
        n = cnt.value
        body = [s for s in funcs["is_target_sequence"].body if not (isinstance(s, ast.Expr) and isinstance(s.value, ast.Constant))]
        if len(body) != 1 or not isinstance(body[0], ast.Return) or not isinstance(body[0].value, ast.BoolOp) \
                or not isinstance(body[0].value.op, ast.And):
            raise TranslateError("is_target_sequence must return a conjunction")
        names = {}
        eqs = []
        for c in body[0].value.values:
            if not (isinstance(c, ast.Compare) and len(c.ops) == 1 and isinstance(c.ops[0], ast.Eq)):
                raise TranslateError("is_target_sequence: only == comparisons are supported")
            l, r = _seq_attr(c.left), _seq_attr(c.comparators[0])
            if l and l[1] == "name":
                names[l[0]] = _gate_name_const(c.comparators[0])
            elif l and r and l[1] in ("control_indices", "target_indices") and r[1] in ("control_indices", "target_indices"):
                eqs.append((l, r))
            else:
                raise TranslateError(f"is_target_sequence: unsupported conjunct {ast.unparse(c)}")
        if sorted(names) != list(range(n)):
            raise TranslateError("is_target_sequence must fix the name of every gate of the window")
        uf = _UF()
        slots = {}
        for i in range(n):
            kind, ar, nc, npar = KINDS[names[i]]
            if npar:
                raise TranslateError("parametric gates in a fused window are not supported")
            slots[(i, "control_indices")] = [(i, "c", j) for j in range(nc)]
            slots[(i, "target_indices")] = [(i, "t", j) for j in range(ar - nc)]
            for s in slots[(i, "control_indices")] + slots[(i, "target_indices")]:
                uf.find(s)
        for l, r in eqs:
            a, b = slots[l], slots[r]
            if len(a) != len(b):
                raise TranslateError("index tuples of different lengths compared (the test can never hold)")
            for x, y in zip(a, b):
                uf.union(x, y)
        role = {}

        def rid(s):
            r = uf.find(s)
            if r not in role:
                role[r] = len(role)
            return role[r]
        window = []
        for i in range(n):
            qs = [rid(s) for s in slots[(i, "control_indices")] + slots[(i, "target_indices")]]
            if len(set(qs)) != len(qs):
                raise TranslateError("window gate with repeated qubit")
            window.append({"name": names[i], "roles": qs, "angles": []})
        # fuse body
        fstm = [s for s in funcs["fuse"].body if not (isinstance(s, ast.Expr) and isinstance(s.value, ast.Constant))]
        roles = {}
        for st in fstm[:-1]:
            if not (isinstance(st, ast.Assign) and len(st.targets) == 1):
                raise TranslateError("fuse: only assignments before return")
            tg, val = st.targets[0], st.value
            pairs = list(zip(tg.elts, val.elts)) if isinstance(tg, ast.Tuple) and isinstance(val, ast.Tuple) else [(tg, val)]
            for t, v in pairs:
                if not (isinstance(v, ast.Subscript) and isinstance(v.slice, ast.Constant)):
                    raise TranslateError("fuse: binding must be seq[i].x_indices[j]")
                sa = _seq_attr(v.value)
                if not sa or sa[1] not in ("control_indices", "target_indices"):
                    raise TranslateError("fuse: binding must be seq[i].x_indices[j]")
                roles[t.id] = rid(slots[sa][v.slice.value])
        ret = fstm[-1].value
        if not isinstance(ret, ast.List):
            raise TranslateError("fuse must return a list literal")
        fbody = []
        for call in ret.elts:
            ch = _attr_chain(call.func)
            if not ch or ch[0] not in ENV.gates_aliases or ch[1] not in KINDS:
                raise TranslateError("fuse: unsupported gate factory")
            kind, ar, nc, npar = KINDS[ch[1]]
            if npar or len(call.args) != ar:
                raise TranslateError("fuse: unsupported arguments")
            fbody.append({"name": ch[1], "roles": [roles[a.id] for a in call.args], "angles": []})
        out[node.name] = {"window": window, "body": fbody, "n_roles": len(role)}
    if "CNOTHCNOTFusingTranspiler" not in out:
        raise TranslateError("CNOTHCNOTFusingTranspiler not found")
    # FuseRotationTranspiler: R(a) R(b) on one qubit -> R(a + b mod 2pi); shape check of the source
    fr = [n for n in tree.body if isinstance(n, ast.ClassDef) and n.name == "FuseRotationTranspiler"]
    if len(fr) != 1:
        raise TranslateError("FuseRotationTranspiler not found")
    ffun = {f.name: f for f in fr[0].body if isinstance(f, ast.FunctionDef)}
    src_t = ast.unparse(ffun["is_target_sequence"])
    src_f = ast.unparse(ffun["fuse"])
    need_t = ["left, right = seq", "left.name in [gate_names.RX, gate_names.RY, gate_names.RZ]",
              "left.name == right.name", "left.target_indices == right.target_indices"]
    need_f = ["left, right = seq", "theta = (left.params[0] + right.params[0]) % (2.0 * np.pi)",
              "QuantumGate(name=left.name, target_indices=left.target_indices, params=(theta,))"]
    for frag in need_t:
        if frag not in src_t:
            raise TranslateError(f"FuseRotationTranspiler.is_target_sequence: expected `{frag}`")
    for frag in need_f:
        if frag not in src_f:
            raise TranslateError(f"FuseRotationTranspiler.fuse: expected `{frag}`")
    for k in ("RX", "RY", "RZ"):
        out[f"FuseRotationTranspiler_{k}"] = {
            "window": [{"name": k, "roles": [0], "angles": [{"pi4": 0, "th": [1, 0]}]},
                       {"name": k, "roles": [0], "angles": [{"pi4": 0, "th": [0, 1]}]}],
            "body": [{"name": k, "roles": [0], "angles": [{"pi4": 0, "th": [1, 1]}]}],
            "n_roles": 1, "note": "angle reduced mod 2 pi by the code"}
    return out


def extract_clifford_table():
    path = os.path.join(TRANSPILE, "gateset.py")
    tree = ast.parse(open(path).read(), path)
    global ENV
    ENV = Env(tree)
    val = None
    for node in tree.body:
        if isinstance(node, ast.AnnAssign) and isinstance(node.target, ast.Name) and node.target.id == "_equiv_clifford_table":
            val = node.value
    if not isinstance(val, ast.Dict):
        raise TranslateError("_equiv_clifford_table not found")
    tab = {}
    for k, v in zip(val.keys, val.values):
        key = _gate_name_const(k)
        if key not in KINDS or KINDS[key][1] != 1 or KINDS[key][3] != 0:
            raise TranslateError(f"clifford table key {key} is not a parameter-free single-qubit kind")
        if not isinstance(v, ast.List):
            raise TranslateError("clifford table value must be a list of lists")
        rows = []
        for cand in v.elts:
            if not isinstance(cand, ast.List):
                raise TranslateError("clifford table candidate must be a list")
            row = [_gate_name_const(e) for e in cand.elts]
            for g in row:
                if g not in KINDS or KINDS[g][1] != 1 or KINDS[g][3] != 0:
                    raise TranslateError(f"clifford table gate {g} unsupported")
            rows.append(row)
        tab[key] = rows
    return tab


def emit_fusers_coq(fus: dict, cliff: dict) -> str:
    out = ["(* GENERATED by translate/templates.py from /repo -- do not edit *)",
           "From Coq Require Import ZArith List String.", "From QP Require Import Gates.",
           "Import ListNotations.", "Open Scope string_scope.", ""]
    names = []
    for cname in sorted(fus):
        f = fus[cname]
        w = ";\n     ".join(coq_gate(g) for g in f["window"])
        b = ";\n     ".join(coq_gate(g) for g in f["body"])
        out.append(f"Definition fuser_{cname} : (nat * list gate * list gate) :=\n  ({f['n_roles']}%nat,\n    [{w}],\n    [{b}]).\n")
        names.append(f"fuser_{cname}")
    out.append("Definition fusers_all : list (nat * list gate * list gate) :=\n  [" + ";\n   ".join(names) + "].\n")
    rows = []
    for key in sorted(cliff):
        cands = "; ".join("[" + "; ".join(KINDS[g][0] for g in row) + "]" for row in cliff[key])
        rows.append(f"({KINDS[key][0]}, [{cands}])")
    out.append("Definition clifford_table : list (gkind * list (list gkind)) :=\n  [" + ";\n   ".join(rows) + "].\n")
    return "\n".join(out)


def run_fusers(gen_dir: str, json_path: str) -> dict:
    fus = extract_fusers()
    cliff = extract_clifford_table()
    with open(os.path.join(gen_dir, "fusers.v"), "w") as f:
        f.write(emit_fusers_coq(fus, cliff))
    with open(json_path, "w") as f:
        json.dump({"fusers": fus, "clifford_table": cliff}, f, indent=1)
    return {"fusers": fus, "clifford_table": cliff}
