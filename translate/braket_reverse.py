"""TR-braket-rev: fail-closed translation of the Braket -> quri-parts converter
(packages/braket/.../circuit/braket_circuit_converter.py:gate_from_braket).

The function is a sequence of `if gate_name in <table>` / `if gate_name == "<Name>"` blocks.  For every Braket gate name it
accepts, the library gate it returns is extracted: factory, qubit order (`qubits[0]`, `*qubits`), parameters (the `angle`,
`angle_1..3` attributes of the operator).  The "U" block chooses between U1 / U2 / U3 by comparing theta and phi with
constants: each choice becomes a row with the corresponding angles fixed.  The Coq obligation of a row: the returned library
gate has the matrix the CONTRACT (translate/braket_adapter.py:BRAKET_CONTRACT, validated against the installed Braket on
every run) assigns to the Braket gate.  `Unitary` (matrix gates) is outside the modelled vocabulary.  Never evaluates
repository code."""
from __future__ import annotations

import ast
import json
import os

from vlib.common import REPO
from translate.templates import KINDS, TranslateError, _angle, Env
from translate import templates as T
from translate.tables import _parse
from translate.braket_adapter import BRAKET_CONTRACT

PATH = os.path.join(REPO, "packages/braket/quri_parts/braket/circuit/braket_circuit_converter.py")
ATTR = {"braket_gate.operator.angle": 0, "braket_gate.operator.angle_1": 0, "braket_gate.operator.angle_2": 1,
        "braket_gate.operator.angle_3": 2, "getattr(braket_gate.operator, 'angle')": 0}


def _tables(tree):
    tabs = {}
    for node in tree.body:
        if isinstance(node, ast.AnnAssign) and isinstance(node.target, ast.Name) and isinstance(node.value, ast.Dict):
            d = {}
            for k, v in zip(node.value.keys, node.value.values):
                if not (isinstance(k, ast.Constant) and isinstance(k.value, str) and isinstance(v, ast.Attribute)
                        and isinstance(v.value, ast.Name) and v.value.id == "gates"):
                    raise TranslateError(f"{node.target.id}: entries must be \"Name\": gates.X")
                d[k.value] = v.attr
            tabs[node.target.id] = d
    return tabs


def extract():
    tree = _parse(PATH)
    T.ENV = Env(tree)
    tabs = _tables(tree)
    fn = [n for n in tree.body if isinstance(n, ast.FunctionDef) and n.name == "gate_from_braket"]
    if len(fn) != 1:
        raise TranslateError("gate_from_braket not found")
    body = [s for s in fn[0].body if not (isinstance(s, ast.Expr) and isinstance(s.value, ast.Constant))]
    head = [ast.unparse(s) for s in body[:2]]
    if head != ["gate_name = braket_gate.operator.name", "qubits = list(map(int, braket_gate.target.item_list))"]:
        raise TranslateError(f"unexpected prologue {head}")
    rows = []

    def lib_call(node, env, cond):
        """gates.X(qubits[0], angle...) | TABLE[gate_name](qubits[0], ...) -> (factory name or table, qubit roles, params)"""
        if not isinstance(node, ast.Call):
            raise TranslateError(f"unsupported return {ast.unparse(node)}")
        f = node.func
        if isinstance(f, ast.Attribute) and isinstance(f.value, ast.Name) and f.value.id == "gates":
            fac = ("gate", f.attr)
        elif isinstance(f, ast.Subscript) and isinstance(f.value, ast.Name) and f.value.id in tabs and ast.unparse(f.slice) == "gate_name":
            fac = ("table", f.value.id)
        else:
            raise TranslateError(f"unsupported factory {ast.unparse(f)}")
        roles, params = [], []
        for a in node.args:
            s = ast.unparse(a)
            if s == "*qubits":
                roles.append("*")
            elif isinstance(a, ast.Subscript) and ast.unparse(a.value) == "qubits" and isinstance(a.slice, ast.Constant):
                roles.append(a.slice.value)
            elif s in ATTR:
                params.append(("var", ATTR[s]))
            elif isinstance(a, ast.Name) and a.id in env:
                params.append(env[a.id])
            else:
                raise TranslateError(f"unsupported argument {s}")
        return fac, roles, params

    def const_cmp(node, env):
        """theta == 0.0 and phi == 0.0 / theta == np.pi / 2  -> {var index: pi4}"""
        parts = node.values if isinstance(node, ast.BoolOp) and isinstance(node.op, ast.And) else [node]
        fixed = {}
        for c in parts:
            if not (isinstance(c, ast.Compare) and len(c.ops) == 1 and isinstance(c.ops[0], ast.Eq) and isinstance(c.left, ast.Name)
                    and c.left.id in env and env[c.left.id][0] == "var"):
                raise TranslateError(f"unsupported comparison {ast.unparse(c)}")
            k = _angle(c.comparators[0], {}).to_json(0)["pi4"]
            fixed[env[c.left.id][1]] = k
        return fixed

    def block(stmts, names, env, fixed):
        """statements of one `if gate_name ...` block -> rows"""
        for st in stmts:
            if isinstance(st, ast.Assert):
                continue
            if isinstance(st, ast.Assign):
                tg, val = st.targets[0], st.value
                if isinstance(tg, ast.Name) and ast.unparse(val) in ATTR:
                    env[tg.id] = ("var", ATTR[ast.unparse(val)])
                elif isinstance(tg, ast.Tuple) and isinstance(val, ast.Tuple) and len(tg.elts) == len(val.elts):
                    for t, v in zip(tg.elts, val.elts):
                        if ast.unparse(v) not in ATTR:
                            raise TranslateError(f"unsupported binding {ast.unparse(v)}")
                        env[t.id] = ("var", ATTR[ast.unparse(v)])
                else:
                    raise TranslateError(f"unsupported assignment {ast.unparse(st)}")
            elif isinstance(st, ast.If):
                t = st.test
                if isinstance(t, ast.Compare) and ast.unparse(t.left) == "gate_name":
                    # nested `if gate_name == "Swap": assert ... else: assert ...`
                    for sub in (st.body, st.orelse):
                        if any(not isinstance(x, ast.Assert) for x in sub):
                            raise TranslateError("only assertions may depend on the name inside a block")
                    continue
                fx = const_cmp(t, env)
                block(st.body, names, dict(env), {**fixed, **fx})
                if st.orelse:
                    raise TranslateError("else branches are not supported")
            elif isinstance(st, ast.Return):
                fac, roles, params = lib_call(st.value, env, fixed)
                for nm in names:
                    rows.append({"braket": nm, "factory": fac[1] if fac[0] == "gate" else tabs[fac[1]][nm], "roles": roles,
                                 "params": params, "fixed": dict(fixed)})
                return
            else:
                raise TranslateError(f"unsupported statement {type(st).__name__}")

    skipped = []
    for st in body[2:]:
        if isinstance(st, ast.Assert):
            continue
        if not isinstance(st, ast.If):
            raise TranslateError(f"unsupported top-level statement {type(st).__name__}")
        t = st.test
        src = ast.unparse(t)
        if src.startswith("len(getattr(braket_gate, 'control'") or src.startswith("getattr(braket_gate, 'power'"):
            if not (len(st.body) == 1 and isinstance(st.body[0], ast.Raise)):
                raise TranslateError("modifier guards must raise")
            continue
        if isinstance(t, ast.Compare) and ast.unparse(t.left) == "gate_name" and len(t.ops) == 1:
            r = t.comparators[0]
            if isinstance(t.ops[0], ast.In) and isinstance(r, ast.Name) and r.id in tabs:
                names = sorted(tabs[r.id])
            elif isinstance(t.ops[0], ast.Eq) and isinstance(r, ast.Constant):
                names = [r.value]
            else:
                raise TranslateError(f"unsupported test {src}")
            if names == ["Unitary"]:
                skipped.append("Unitary")
                continue
            block(st.body, names, {}, {})
        else:
            raise TranslateError(f"unsupported test {src}")
    return rows, skipped


def emit(gen_dir, json_path):
    rows, skipped = extract()
    out = []
    for r in rows:
        lib = BRAKET_CONTRACT.get(r["braket"])
        if lib is None:
            raise TranslateError(f"Braket gate {r['braket']} has no contract")
        bk, bar, bnc, bnpar = KINDS[lib]
        if r["factory"] not in KINDS:
            raise TranslateError(f"library factory {r['factory']} outside the vocabulary")
        fk, far, fnc, fnpar = KINDS[r["factory"]]
        if far != bar:
            raise TranslateError(f"{r['braket']} -> {r['factory']}: arity mismatch")
        roles = list(range(far)) if r["roles"] == ["*"] else r["roles"]
        if sorted(roles) != list(range(far)) or len(r["params"]) != fnpar:
            raise TranslateError(f"{r['braket']} -> {r['factory']}: argument mismatch")

        def ang(i):
            return f"ang_pi4 ({r['fixed'][i]})%Z" if i in r["fixed"] else f"ang_var {i}"
        src_angs = "; ".join(ang(i) for i in range(bnpar))
        dst_angs = "; ".join(ang(p[1]) for p in r["params"])
        out.append(f"(mkG {bk} [{'; '.join(str(i) for i in range(bar))}]%nat [{src_angs}], "
                   f"mkG {fk} [{'; '.join(str(x) for x in roles)}]%nat [{dst_angs}])")
    src = ("(* GENERATED by translate/braket_reverse.py from /repo -- do not edit *)\n"
           "From Coq Require Import ZArith List.\nFrom QP Require Import Gates.\nImport ListNotations.\n\n"
           "(* (the Braket gate read through the contract, with the angles a branch fixes; the library gate gate_from_braket\n"
           "   returns in that branch) *)\n"
           "Definition braket_rev : list (gate * gate) :=\n  [" + ";\n   ".join(out) + "].\n")
    open(os.path.join(gen_dir, "braketrev.v"), "w").write(src)
    json.dump({"rows": rows, "skipped": skipped}, open(json_path, "w"), indent=1)
    return rows


if __name__ == "__main__":
    rows, sk = extract()
    for r in rows:
        print(r)
    print("skipped", sk)
