"""TR-cirq: fail-closed translation of the quri-parts -> Cirq converter (packages/cirq/.../circuit_converter.py).

 * the gate tables (`_single_qubit_gate_cirq`, `_single_qubit_rotation_gate_cirq`, `_two_qubit_gate_cirq`,
   `_three_qubit_gate_cirq`) are read as {gate name: source text of the Cirq expression};
 * `convert_gate` is evaluated symbolically for every gate kind of the modelled vocabulary: which table entry is used,
   with which parameters, and in which order the qubits are handed to `.on(...)`;
 * the custom gate classes U1, U2, U3 defined in the file carry their own `_unitary_`: that numpy matrix expression is
   translated entry by entry into the exact matrix ring of lib/Lpoly.v (entries in Z[w][e^{i a}], a common power of
   1/sqrt2), so the theorem is about the matrix the code builds, not about a name.
 * Cirq's own gates are read through a CONTRACT (name -> library kind; CNOT/CZ/TOFFOLI take controls first; rx/ry/rz are
   exp(-i theta/2 sigma)); the contract is validated numerically against the installed Cirq on every run (corr_C03.py).

Never evaluates repository code."""
from __future__ import annotations

import ast
import json
import os
from fractions import Fraction

from vlib.common import REPO
from translate.templates import KINDS, TranslateError, coq_ang
from translate.adapters import _name_sets
from translate.tables import _parse

PATH = os.path.join(REPO, "packages/cirq/quri_parts/cirq/circuit/circuit_converter.py")

# Cirq expression (as written in the tables) -> library kind with the same matrix (validated against cirq.unitary)
CIRQ_CONTRACT = {
    "I": "Identity", "X": "X", "Y": "Y", "Z": "Z", "H": "H", "S": "S", "S ** (-1)": "Sdag", "X ** 0.5": "SqrtX",
    "X ** (-0.5)": "SqrtXdag", "Y ** 0.5": "SqrtY", "Y ** (-0.5)": "SqrtYdag", "T": "T", "T ** (-1)": "Tdag",
    "rx": "RX", "ry": "RY", "rz": "RZ", "CNOT": "CNOT", "CZ": "CZ", "SWAP": "SWAP", "TOFFOLI": "TOFFOLI",
}


def _norm(src: str) -> str:
    return src.replace("**-", "** -").replace("** -1", "** (-1)").replace("** -0.5", "** (-0.5)")


def _dict_tables(tree):
    tabs = {}
    for node in tree.body:
        if isinstance(node, ast.AnnAssign) and isinstance(node.target, ast.Name) and isinstance(node.value, ast.Dict):
            d = {}
            for k, v in zip(node.value.keys, node.value.values):
                if not (isinstance(k, ast.Attribute) and isinstance(k.value, ast.Name) and k.value.id == "gate_names"):
                    raise TranslateError(f"{node.target.id}: key must be gate_names.X")
                d[k.attr] = _norm(ast.unparse(v))
            tabs[node.target.id] = d
    return tabs


# ----------------------------------------------------------------------------- numpy matrix expression -> exact matrix
class Ent:
    """coq LP expression times (1/sqrt2)^e"""

    def __init__(self, lp: str, e: int = 0):
        self.lp, self.e = lp, e

    def raise_to(self, e):
        x = self
        while x.e < e:
            x = Ent(f"(lp_mul sqrt2 {x.lp})", x.e + 1)
        return x


def _aff(node, params):
    """affine expression over self.<param> -> {'pi4','th'}"""
    def go(n):
        if isinstance(n, ast.Attribute) and isinstance(n.value, ast.Name) and n.value.id == "self" and n.attr in params:
            th = [0] * len(params)
            th[params.index(n.attr)] = 1
            return (Fraction(0), [Fraction(x) for x in th])
        if isinstance(n, ast.BinOp) and isinstance(n.op, (ast.Add, ast.Sub)):
            a, b = go(n.left), go(n.right)
            s = 1 if isinstance(n.op, ast.Add) else -1
            return (a[0] + s * b[0], [x + s * y for x, y in zip(a[1], b[1])])
        raise TranslateError(f"unsupported angle {ast.unparse(n)}")
    c, th = go(node)
    if c != 0 or any(x.denominator != 1 for x in th):
        raise TranslateError("angle is not an integer combination of the parameters")
    return {"pi4": 0, "th": [int(x) for x in th]}


def _entry(node, params) -> Ent:
    src = ast.unparse(node)
    if isinstance(node, ast.Constant) and node.value in (0, 1):
        return Ent("lp0" if node.value == 0 else "one")
    if isinstance(node, ast.UnaryOp) and isinstance(node.op, ast.USub):
        x = _entry(node.operand, params)
        return Ent(f"(lp_opp {x.lp})", x.e)
    if isinstance(node, ast.Call) and ast.unparse(node.func) == "np.exp" and len(node.args) == 1:
        a = node.args[0]   # <affine> * 1j
        if isinstance(a, ast.BinOp) and isinstance(a.op, ast.Mult) and isinstance(a.right, ast.Constant) and a.right.value == 1j:
            return Ent(f"(ang_exp {coq_ang(_aff(a.left, params))})")
        raise TranslateError(f"unsupported exponent {src}")
    if isinstance(node, ast.Call) and ast.unparse(node.func) in ("np.cos", "np.sin") and len(node.args) == 1:
        a = node.args[0]   # self.theta / 2
        if isinstance(a, ast.BinOp) and isinstance(a.op, ast.Div) and isinstance(a.right, ast.Constant) and a.right.value == 2:
            h = f"(ang_exp_half {coq_ang(_aff(a.left, params))})"
            if ast.unparse(node.func) == "np.cos":
                return Ent(f"(lp_add {h} (lp_conj {h}))", 2)                              # 2 cos = t + conj t
            return Ent(f"(lp_mul (lp_opp ci) (lp_sub {h} (lp_conj {h})))", 2)            # 2 sin = -i (t - conj t)
        raise TranslateError(f"unsupported trigonometric argument {src}")
    if isinstance(node, ast.BinOp) and isinstance(node.op, ast.Mult):
        a, b = _entry(node.left, params), _entry(node.right, params)
        return Ent(f"(lp_mul {a.lp} {b.lp})", a.e + b.e)
    if isinstance(node, ast.BinOp) and isinstance(node.op, ast.Div) and ast.unparse(node.right) == "np.sqrt(2)":
        a = _entry(node.left, params)
        return Ent(a.lp, a.e + 1)
    raise TranslateError(f"unsupported matrix entry {src}")


def _custom_gate(cls: ast.ClassDef):
    """class U*(Gate) with __init__(self, a, b, ..) storing self.a = a ... and _unitary_ returning np.array([[..],[..]])"""
    funcs = {f.name: f for f in cls.body if isinstance(f, ast.FunctionDef)}
    init = funcs.get("__init__")
    uni = funcs.get("_unitary_")
    nq = funcs.get("_num_qubits_")
    if init is None or uni is None or nq is None or ast.unparse(nq.body[-1]) != "return 1":
        raise TranslateError(f"{cls.name}: not a one-qubit custom gate")
    params = [a.arg for a in init.args.args[1:]]
    stores = [ast.unparse(s) for s in init.body if isinstance(s, ast.Assign)]
    if stores != [f"self.{p} = {p}" for p in params]:
        raise TranslateError(f"{cls.name}.__init__ does not store its parameters verbatim")
    ret = [s for s in uni.body if isinstance(s, ast.Return)]
    if len(ret) != 1 or not (isinstance(ret[0].value, ast.Call) and ast.unparse(ret[0].value.func) == "np.array"):
        raise TranslateError(f"{cls.name}._unitary_ must return np.array([[..], [..]])")
    rows = ret[0].value.args[0]
    if not (isinstance(rows, ast.List) and len(rows.elts) == 2 and all(isinstance(r, ast.List) and len(r.elts) == 2 for r in rows.elts)):
        raise TranslateError(f"{cls.name}._unitary_ is not a 2 x 2 literal")
    ents = [_entry(e, params) for r in rows.elts for e in r.elts]
    e = max(x.e for x in ents)
    ents = [x.raise_to(e) for x in ents]
    return {"params": params, "entries": [x.lp for x in ents], "exp": e}


# ----------------------------------------------------------------------------- convert_gate, symbolically
def extract():
    tree = _parse(PATH)
    preds = _name_sets()
    tabs = _dict_tables(tree)
    need = ["_single_qubit_gate_cirq", "_single_qubit_rotation_gate_cirq", "_two_qubit_gate_cirq", "_three_qubit_gate_cirq"]
    for t in need:
        if t not in tabs:
            raise TranslateError(f"table {t} not found")
    customs = {c.name: _custom_gate(c) for c in tree.body
               if isinstance(c, ast.ClassDef) and [ast.unparse(b) for b in c.bases] == ["Gate"]}
    fn = [n for n in tree.body if isinstance(n, ast.FunctionDef) and n.name == "convert_gate"]
    if len(fn) != 1:
        raise TranslateError("convert_gate not found")
    body = [s for s in fn[0].body if not (isinstance(s, ast.Expr) and isinstance(s.value, ast.Constant))]
    if len(body) != 1 or not isinstance(body[0], ast.If):
        raise TranslateError("convert_gate must be one if/elif chain")

    def test(node, name):
        src = ast.unparse(node)
        if isinstance(node, ast.Call) and isinstance(node.func, ast.Name) and node.func.id in preds \
                and ast.unparse(node.args[0]) == "gate.name":
            return name in preds[node.func.id]
        if isinstance(node, ast.Compare) and len(node.ops) == 1 and ast.unparse(node.left) == "gate.name":
            r = node.comparators[0]
            if isinstance(node.ops[0], ast.In) and isinstance(r, ast.Name) and r.id in tabs:
                return name in tabs[r.id]
            if isinstance(node.ops[0], ast.Eq) and isinstance(r, ast.Constant):
                return name == r.value
        raise TranslateError(f"unsupported test {src}")

    def order(args, ar, nc):
        """arguments of .on(...) -> list of roles (controls first in the library's role numbering)"""
        srcs = [ast.unparse(a) for a in args]
        if srcs == ["LineQubit(*gate.target_indices)"] and ar - nc == 1:
            return [nc]
        if srcs == ["LineQubit(*gate.control_indices)", "LineQubit(*gate.target_indices)"] and nc == 1 and ar == 2:
            return [0, 1]
        if srcs == ["LineQubit(gate.target_indices[0])", "LineQubit(gate.target_indices[1])"] and nc == 0 and ar == 2:
            return [0, 1]
        if srcs == ["*(LineQubit(q) for q in (*gate.control_indices, *gate.target_indices))"]:
            return list(range(ar))
        raise TranslateError(f"unsupported qubit arguments {srcs}")

    def ret(node, name, ar, nc, npar):
        if not (isinstance(node, ast.Return) and isinstance(node.value, ast.Call) and isinstance(node.value.func, ast.Attribute)
                and node.value.func.attr == "on"):
            raise TranslateError(f"{name}: branch must return <gate>.on(...)")
        base = node.value.func.value
        roles = order(node.value.args, ar, nc)
        if isinstance(base, ast.Subscript) and isinstance(base.value, ast.Name) and ast.unparse(base.slice) == "gate.name":
            return {"expr": tabs[base.value.id][name], "roles": roles, "params": 0}
        if isinstance(base, ast.Call) and isinstance(base.func, ast.Subscript) and isinstance(base.func.value, ast.Name) \
                and ast.unparse(base.func.slice) == "gate.name" and [ast.unparse(a) for a in base.args] == ["*gate.params"]:
            return {"expr": tabs[base.func.value.id][name], "roles": roles, "params": npar}
        raise TranslateError(f"{name}: unsupported gate expression {ast.unparse(base)}")

    def run(stmts, name, sig):
        for st in stmts:
            if isinstance(st, ast.If):
                r = run(st.body if test(st.test, name) else st.orelse, name, sig)
                if r is not None:
                    return r
            elif isinstance(st, ast.Return):
                return ret(st, name, *sig)
            elif isinstance(st, ast.Raise):
                return "raise"
            else:
                raise TranslateError(f"unsupported statement {type(st).__name__}")
        return None

    conv = {}
    for name, (ck, ar, nc, npar) in KINDS.items():
        r = run(body, name, (ar, nc, npar))
        if r is None:
            raise TranslateError(f"convert_gate({name}) falls through")
        conv[name] = r
    return conv, customs


def emit(gen_dir, json_path):
    conv, customs = extract()
    rows, mats = [], []
    for cname in sorted(customs):
        c = customs[cname]
        a, b, c_, d = c["entries"]
        mats.append(f"Definition cirq_{cname} : egate := mkE (m2 {a} {b} {c_} {d}) {c['exp']} [0%nat].")
    for name in sorted(conv):
        r = conv[name]
        k, ar, nc, npar = KINDS[name]
        if r == "raise":
            raise TranslateError(f"convert_gate rejects the modelled kind {name}")
        angs = "; ".join(f"ang_var {i}" for i in range(npar))
        roles = "; ".join(str(x) for x in r["roles"])
        if r["expr"] in customs:
            if r["params"] != len(customs[r["expr"]]["params"]):
                raise TranslateError(f"{name}: parameter count of {r['expr']}")
            rows.append(f"({k}, CCustom cirq_{r['expr']})")
        else:
            lib = CIRQ_CONTRACT.get(r["expr"])
            if lib is None:
                raise TranslateError(f"Cirq expression `{r['expr']}` has no contract")
            lk, lar, lnc, lnpar = KINDS[lib]
            if lar != ar or lnpar != r["params"] or (lnpar and lnpar != npar):
                raise TranslateError(f"{name} -> {r['expr']}: arity/parameter mismatch")
            rows.append(f"({k}, CLib (mkG {lk} [{roles}]%nat [{angs}]))")
    src = ("(* GENERATED by translate/cirq_adapter.py from /repo -- do not edit *)\n"
           "From Coq Require Import ZArith List.\nFrom QP Require Import Zw Lpoly FMat Local Gates.\nImport ListNotations.\n\n"
           "Definition sqrt2 : LP := lp_add cw cwbar.\n"
           "Inductive cirq_gate := CLib (g : gate) | CCustom (e : egate).\n"
           + "\n".join(mats) + "\n\n"
           "(* (library kind, what convert_gate builds for the canonical gate of that kind: a Cirq gate read through the\n"
           "   contract, or a custom gate class of the converter with the matrix its _unitary_ returns) *)\n"
           "Definition cirq_conv : list (gkind * cirq_gate) :=\n  [" + ";\n   ".join(rows) + "].\n")
    open(os.path.join(gen_dir, "cirqconv.v"), "w").write(src)
    json.dump({"convert_gate": conv, "customs": customs, "contract": CIRQ_CONTRACT}, open(json_path, "w"), indent=1)
    return conv


if __name__ == "__main__":
    c, cu = extract()
    print(json.dumps(c, indent=0)[:1500])
    print(json.dumps(cu, indent=1))
