"""TR-pipe: name-level abstraction of every transpiler pass and of the preset pipelines.

For each pass class: which gate names it rewrites and the set of names it may emit for each of them
(an over-approximation read off the source: every gate-factory call reachable from decompose/fuse, `gate`
itself when it may be returned unchanged).  For each preset: the sequence of stages.
Emits Coq data for model/Names.v and JSON for the correspondence harness.  Never evaluates repo code."""
from __future__ import annotations

import ast
import json
import os

from vlib.common import REPO
from translate.templates import Env, TranslateError

TRANSPILE = os.path.join(REPO, "packages/circuit/quri_parts/circuit/transpile")
FILES = ["gate_kind_decomposer.py", "gateset.py", "fuse.py", "multi_pauli_decomposer.py",
         "unitary_matrix_decomposer.py", "identity_manipulation.py"]

UM = ["UnitaryMatrix1", "UnitaryMatrix2", "UnitaryMatrix3"]  # abstract names: arity 1, 2, >= 3
ROT = ["RX", "RY", "RZ"]


def _factory_names(node, env, helpers, seen=None):
    """all gates.X(...) factory names reachable from `node` (following module-level helper functions)"""
    seen = seen if seen is not None else set()
    out = set()
    same = False
    for n in ast.walk(node):
        if isinstance(n, ast.Call):
            f = n.func
            if isinstance(f, ast.Attribute) and isinstance(f.value, ast.Name) and f.value.id in env.gates_aliases:
                out.add(f.attr)
            elif isinstance(f, ast.Name) and f.id == "QuantumGate":
                same = True  # rebuilt with the input gate's own name
            elif isinstance(f, ast.Name) and f.id in helpers and f.id not in seen:
                seen.add(f.id)
                o2, s2 = _factory_names(helpers[f.id], env, helpers, seen)
                out |= o2
                same = same or s2
    return out, same


class _Specialise(ast.NodeTransformer):
    """decompose() specialised to one value of a boolean constructor flag stored as self.<attr>"""
    def __init__(self, attr, val):
        self.attr, self.val = attr, val

    def _test(self, t):
        if isinstance(t, ast.Attribute) and isinstance(t.value, ast.Name) and t.value.id == "self" and t.attr == self.attr:
            return self.val
        if isinstance(t, ast.UnaryOp) and isinstance(t.op, ast.Not):
            v = self._test(t.operand)
            return None if v is None else (not v)
        return None

    def visit_IfExp(self, node):
        v = self._test(node.test)
        if v is None:
            return self.generic_visit(node)
        return self.visit(node.body if v else node.orelse)

    def visit_If(self, node):
        v = self._test(node.test)
        if v is None:
            return self.generic_visit(node)
        body = node.body if v else node.orelse
        out = []
        for st in body:
            r = self.visit(st)
            out += r if isinstance(r, list) else [r]
        return out or [ast.Pass()]


def _bool_flags(init):
    """constructor parameters with a boolean default that are stored as self.<attr>: name -> (position, default, attr)"""
    if init is None:
        return {}
    params = [a.arg for a in init.args.args][1:]
    defaults = init.args.defaults
    dmap = dict(zip(params[len(params) - len(defaults):], defaults))
    flags = {}
    for st in init.body:
        if isinstance(st, ast.Assign) and len(st.targets) == 1 and isinstance(st.targets[0], ast.Attribute) \
                and isinstance(st.targets[0].value, ast.Name) and st.targets[0].value.id == "self" \
                and isinstance(st.value, ast.Name) and st.value.id in dmap \
                and isinstance(dmap[st.value.id], ast.Constant) and isinstance(dmap[st.value.id].value, bool):
            flags[st.value.id] = (params.index(st.value.id), dmap[st.value.id].value, st.targets[0].attr)
    return flags


def _returns_gate_itself(func):
    for n in ast.walk(func):
        if isinstance(n, ast.Return) and n.value is not None:
            for m in ast.walk(n.value):
                if isinstance(m, ast.Name) and m.id == "gate":
                    return True
    return False


def _target_names(func, env):
    body = [s for s in func.body if not (isinstance(s, ast.Expr) and isinstance(s.value, ast.Constant))]
    if len(body) != 1 or not isinstance(body[0], ast.Return) or not isinstance(body[0].value, (ast.List, ast.Tuple)):
        raise TranslateError("target_gate_names must return a list literal")
    res = []
    for e in body[0].value.elts:
        if isinstance(e, ast.Attribute) and isinstance(e.value, ast.Name) and e.value.id in env.gate_names_aliases:
            res.append(e.attr)
        elif isinstance(e, ast.Name) and e.id in env.gate_name_consts:
            res.append(env.gate_name_consts[e.id])
        else:
            raise TranslateError("unexpected element in target_gate_names")
    return res


def pass_summaries():
    """class name -> {"targets": [names] , "outs": {target: [names]}} ; names use UnitaryMatrix1/2/3"""
    res = {}
    for fn in FILES:
        path = os.path.join(TRANSPILE, fn)
        tree = ast.parse(open(path).read(), path)
        env = Env(tree)
        helpers = {n.name: n for n in tree.body if isinstance(n, ast.FunctionDef)}
        for node in tree.body:
            if not isinstance(node, ast.ClassDef):
                continue
            funcs = {f.name: f for f in node.body if isinstance(f, ast.FunctionDef)}
            bases = [b.id for b in node.bases if isinstance(b, ast.Name)]
            if "GateKindDecomposer" in bases:
                targets = _target_names(funcs["target_gate_names"], env)
                outs, same = _factory_names(funcs["decompose"], env, helpers)
                keep = _returns_gate_itself(funcs["decompose"]) or same
                res[node.name] = {"targets": targets,
                                  "outs": {t: sorted(outs | ({t} if keep else set())) for t in targets}}
                # boolean constructor flags that select between returns of decompose(): output names per flag value,
                # read off the specialised body (nothing about the flag's meaning is assumed)
                flags = {}
                for pname, (pos, default, attr) in _bool_flags(funcs.get("__init__")).items():
                    if not any(isinstance(m, ast.Attribute) and isinstance(m.value, ast.Name) and m.value.id == "self"
                               and m.attr == attr for m in ast.walk(funcs["decompose"])):
                        continue
                    per = {}
                    for val in (True, False):
                        import copy
                        f2 = ast.fix_missing_locations(_Specialise(attr, val).visit(copy.deepcopy(funcs["decompose"])))
                        o2, s2 = _factory_names(f2, env, helpers)
                        k2 = _returns_gate_itself(f2) or s2
                        per["true" if val else "false"] = {t: sorted(o2 | ({t} if k2 else set())) for t in targets}
                    flags[pname] = {"pos": pos, "default": default, "outs": per}
                if flags:
                    res[node.name]["flags"] = flags
            elif "GateDecomposer" in bases and node.name.endswith("Transpiler") and "is_target_gate" in funcs:
                src = ast.unparse(funcs["is_target_gate"])
                outs, same = _factory_names(funcs["decompose"], env, helpers)
                if node.name == "SingleQubitUnitaryMatrix2RYRZTranspiler":
                    if "UnitaryMatrix" not in src or "== 1" not in src:
                        raise TranslateError("unexpected is_target_gate of SingleQubitUnitaryMatrix2RYRZTranspiler")
                    res[node.name] = {"targets": ["UnitaryMatrix1"], "outs": {"UnitaryMatrix1": sorted(outs)}}
                elif node.name == "TwoQubitUnitaryMatrixKAKTranspiler":
                    if "UnitaryMatrix" not in src or "== 2" not in src:
                        raise TranslateError("unexpected is_target_gate of TwoQubitUnitaryMatrixKAKTranspiler")
                    res[node.name] = {"targets": ["UnitaryMatrix2"], "outs": {"UnitaryMatrix2": sorted(outs)}}
                else:
                    raise TranslateError(f"unknown GateDecomposer subclass {node.name}")
            elif "AdjacentGateFuser" in bases:
                outs, same = _factory_names(funcs["fuse"], env, helpers)
                src = ast.unparse(funcs["is_target_sequence"])
                # names that may start a fused window
                cand = sorted({m.attr for m in ast.walk(funcs["is_target_sequence"])
                               if isinstance(m, ast.Attribute) and isinstance(m.value, ast.Name)
                               and m.value.id in env.gate_names_aliases})
                if not cand:
                    raise TranslateError(f"{node.name}: no gate names in is_target_sequence")
                res[node.name] = {"targets": cand,
                                  "outs": {t: sorted(outs | {t}) for t in cand}}
            elif node.name == "IdentityEliminationTranspiler":
                if "gate_names.Identity" not in ast.unparse(funcs["__call__"]):
                    raise TranslateError("IdentityEliminationTranspiler: unexpected body")
                res[node.name] = {"targets": ["Identity"], "outs": {"Identity": []}}
    for need in ("FuseRotationTranspiler", "PauliDecomposeTranspiler", "PauliRotationDecomposeTranspiler",
                 "SingleQubitUnitaryMatrix2RYRZTranspiler", "TwoQubitUnitaryMatrixKAKTranspiler",
                 "IdentityEliminationTranspiler", "RZ2NamedTranspiler"):
        if need not in res:
            raise TranslateError(f"pass {need} not found")
    return res


def _stage_of_call(call, env_names):
    """ClassName(...)  |  ParallelDecomposer([ClassName(), ...])"""
    if not isinstance(call, ast.Call) or not isinstance(call.func, ast.Name):
        raise TranslateError(f"line {call.lineno}: stage must be a constructor call")
    name = call.func.id
    if name == "ParallelDecomposer":
        if len(call.args) != 1 or not isinstance(call.args[0], ast.List):
            raise TranslateError("ParallelDecomposer needs a list literal")
        return {"par": [_stage_of_call(e, env_names)["single"] for e in call.args[0].elts]}
    kw = {k.arg: ast.unparse(k.value) for k in call.keywords}
    args = [ast.unparse(a) for a in call.args]
    return {"single": name, "args": args, "kw": kw}


def presets():
    path = os.path.join(TRANSPILE, "__init__.py")
    tree = ast.parse(open(path).read(), path)
    out = {}
    for node in tree.body:
        tgt = None
        val = None
        if isinstance(node, ast.AnnAssign) and isinstance(node.target, ast.Name):
            tgt, val = node.target.id, node.value
        elif isinstance(node, ast.Assign) and isinstance(node.targets[0], ast.Name):
            tgt, val = node.targets[0].id, node.value
        if tgt in ("RZSetTranspiler", "RotationSetTranspiler", "STARSetTranspiler"):
            if not isinstance(val, ast.Lambda) or not isinstance(val.body, ast.Call):
                raise TranslateError(f"{tgt}: expected lambda: Constructor(...)")
            call = val.body
            if call.func.id == "SequentialTranspiler":
                out[tgt] = [_stage_of_call(e, None) for e in call.args[0].elts]
            elif call.func.id == "GateSetConversionTranspiler":
                out[tgt] = [{"gsc": [ast.unparse(e) for e in call.args[0].elts]}]
            else:
                raise TranslateError(f"{tgt}: unexpected constructor {call.func.id}")
        if isinstance(node, ast.ClassDef) and node.name == "CliffordRZSetTranspiler":
            init = [f for f in node.body if isinstance(f, ast.FunctionDef) and f.name == "__init__"][0]
            calls = [n for n in ast.walk(init) if isinstance(n, ast.Call) and isinstance(n.func, ast.Attribute)
                     and n.func.attr == "__init__"]
            if len(calls) != 1 or not isinstance(calls[0].args[0], ast.List):
                raise TranslateError("CliffordRZSetTranspiler: expected super().__init__([..])")
            out["CliffordRZSetTranspiler"] = [_stage_of_call(e, None) for e in calls[0].args[0].elts]
    for need in ("RZSetTranspiler", "RotationSetTranspiler", "STARSetTranspiler", "CliffordRZSetTranspiler"):
        if need not in out:
            raise TranslateError(f"preset {need} not found")
    return out


def _expand_stage(st, summ):
    """-> list of (target, outs) pairs"""
    def one(cls, args=(), kw=None):
        if cls not in summ:
            raise TranslateError(f"stage class {cls} has no summary")
        s = summ[cls]
        outs = dict(s["outs"])
        for pname, fl in s.get("flags", {}).items():
            given = (kw or {}).get(pname)
            if given is None and fl["pos"] < len(args):
                given = list(args)[fl["pos"]]
            if given is None:
                val = fl["default"]
            elif given in ("True", "False"):
                val = given == "True"
            else:
                continue      # not a literal: keep the union of both values
            sel = fl["outs"]["true" if val else "false"]
            outs = {t: [o for o in outs[t] if o in sel[t]] for t in outs}
        return [(t, outs[t]) for t in s["targets"]]
    if "par" in st:
        pairs = []
        for c in st["par"]:
            pairs += one(c)
        return pairs
    if "single" in st:
        return one(st["single"], st.get("args", ()), st.get("kw"))
    raise TranslateError("gsc stage is handled by validation, not by name analysis")


def coq_str(s):
    return '"' + s + '"'


def emit(gen_dir, json_path):
    summ = pass_summaries()
    pre = presets()
    lines = ["(* GENERATED by translate/pipelines.py from /repo -- do not edit *)",
             "From Coq Require Import String List.", "From QPM Require Import Names.",
             "Import ListNotations.", "Open Scope string_scope.", ""]
    js = {"summaries": summ, "presets": pre, "stages": {}}
    for pname in ("RZSetTranspiler", "CliffordRZSetTranspiler"):
        stages = [_expand_stage(st, summ) for st in pre[pname]]
        js["stages"][pname] = stages
        body = ";\n   ".join("[" + "; ".join(f"({coq_str(t)}, [{'; '.join(coq_str(o) for o in outs)}])"
                                             for t, outs in stg) + "]" for stg in stages)
        lines.append(f"Definition pipe_{pname} : list stage :=\n  [{body}].\n")
    star_last = pre["STARSetTranspiler"][-1]
    lines.append("Definition star_gsc_target : list string := [" +
                 "; ".join(coq_str(x.split('.')[-1]) for x in _gsc_args(star_last)) + "].\n")
    star_pre = [_expand_stage(st, summ) for st in pre["STARSetTranspiler"][:-1]]
    js["stages"]["STARSetTranspiler_prefix"] = star_pre
    lines.append("Definition rotationset_gsc_target : list string := [" +
                 "; ".join(coq_str(x.split('.')[-1]) for x in pre["RotationSetTranspiler"][0]["gsc"]) + "].\n")
    open(os.path.join(gen_dir, "pipes.v"), "w").write("\n".join(lines))
    json.dump(js, open(json_path, "w"), indent=1)
    return js


def _gsc_args(stage):
    """GateSetConversionTranspiler([gate_names.H, ...]) appearing as a stage of a SequentialTranspiler"""
    if stage.get("single") != "GateSetConversionTranspiler":
        raise TranslateError("STARSet: last stage must be GateSetConversionTranspiler")
    txt = stage["args"][0].strip()
    if not (txt.startswith("[") and txt.endswith("]")):
        raise TranslateError("STARSet: GateSetConversionTranspiler needs a list literal")
    return [t.strip() for t in txt[1:-1].split(",") if t.strip()]


if __name__ == "__main__":
    print(json.dumps(pass_summaries(), indent=1)[:4000])
    print(json.dumps(presets(), indent=1)[:3000])
