"""Fail-closed translator for the qsub Inverse resolvers (packages/qsub/quri_parts/qsub/lib/std/inverse.py) and the
primitive-op tables they rest on.

Reads, from the CURRENT source:
  * lib/std/*.py                 - module-level `Name = Op(Ident(NS, "Name"), n[, self_inverse=True])`: the self-inverse flags;
  * eval/quriparts.py            - primitive_op_gate_mapping / primitive_param_op_gate_mapping: qsub op -> library gate factory;
  * lib/std/inverse.py           - the `_resolvers` table (op -> inverse op, rotation ops), the bodies of the two resolver
                                   generators, the structure of inverse_sub_resolver (traversal order, choice of the replacement
                                   of each operation, phase), inverse_controlled_resolver.
Emits qsubinv.v (structure flags, (kind, inverse kind) rows incl. the self-inverse ops, rotation kinds and their angle scale) and
qsubinv.json (the same by op name, for the correspondence harness).  Anything that does not have exactly the expected shape
raises TranslateError."""
import ast
import glob
import json
import os


class TranslateError(Exception):
    pass


GK = {"Identity": "KI", "X": "KX", "Y": "KY", "Z": "KZ", "H": "KH", "S": "KS", "Sdag": "KSdag", "SqrtX": "KSqrtX",
      "SqrtXdag": "KSqrtXdag", "SqrtY": "KSqrtY", "SqrtYdag": "KSqrtYdag", "T": "KT", "Tdag": "KTdag", "CNOT": "KCNOT",
      "CZ": "KCZ", "SWAP": "KSWAP", "TOFFOLI": "KTOFFOLI", "RX": "KRX", "RY": "KRY", "RZ": "KRZ"}
ROT_PAULI = {"RX": "PX", "RY": "PY", "RZ": "PZ"}


def _parse(path):
    with open(path) as f:
        return ast.parse(f.read())


def _func(tree, name):
    for n in ast.walk(tree):
        if isinstance(n, ast.FunctionDef) and n.name == name:
            return n
    raise TranslateError(f"function {name} not found")


def _strip_doc_asserts(body):
    out = []
    for st in body:
        if isinstance(st, ast.Expr) and isinstance(st.value, ast.Constant) and isinstance(st.value.value, str):
            continue
        if isinstance(st, ast.Assert):
            continue
        out.append(st)
    return out


def self_inverse_flags(std_dir):
    flags = {}
    for path in sorted(glob.glob(os.path.join(std_dir, "*.py"))):
        for st in _parse(path).body:
            tgt, val = None, None
            if isinstance(st, ast.Assign) and len(st.targets) == 1 and isinstance(st.targets[0], ast.Name):
                tgt, val = st.targets[0].id, st.value
            elif isinstance(st, ast.AnnAssign) and isinstance(st.target, ast.Name) and st.value is not None:
                tgt, val = st.target.id, st.value
            if tgt is None or not (isinstance(val, ast.Call) and isinstance(val.func, ast.Name) and val.func.id == "Op"):
                continue
            if not (val.args and isinstance(val.args[0], ast.Call) and ast.unparse(val.args[0].func) == "Ident"
                    and len(val.args[0].args) == 2 and isinstance(val.args[0].args[1], ast.Constant)):
                raise TranslateError(f"{path}: unexpected Op(...) form for {tgt}")
            name = val.args[0].args[1].value
            si = False
            for kw in val.keywords:
                if kw.arg == "self_inverse":
                    if not isinstance(kw.value, ast.Constant) or not isinstance(kw.value.value, bool):
                        raise TranslateError(f"{path}: self_inverse of {tgt} is not a literal")
                    si = kw.value.value
                elif kw.arg not in ("unitary",):
                    raise TranslateError(f"{path}: unexpected keyword {kw.arg} in Op(...) of {tgt}")
            if len(val.args) > 3:
                raise TranslateError(f"{path}: positional self_inverse / unitary arguments are not supported ({tgt})")
            if tgt != name:
                raise TranslateError(f"{path}: op variable {tgt} is named {name}")
            flags[tgt] = si
    if not flags:
        raise TranslateError("no primitive op definitions found")
    return flags


def gate_mappings(path):
    tree = _parse(path)
    out = {}
    for want in ("primitive_op_gate_mapping", "primitive_param_op_gate_mapping"):
        d = None
        for st in tree.body:
            if isinstance(st, ast.AnnAssign) and isinstance(st.target, ast.Name) and st.target.id == want:
                d = st.value
            if isinstance(st, ast.Assign) and any(isinstance(t, ast.Name) and t.id == want for t in st.targets):
                d = st.value
        if not isinstance(d, ast.Dict):
            raise TranslateError(f"{want} is not a dict literal")
        m = {}
        for k, v in zip(d.keys, d.values):
            ks, vs = ast.unparse(k), ast.unparse(v)
            if not (ks.startswith("std.") and ks.endswith(".base_id") and vs.startswith("gates.")):
                raise TranslateError(f"{want}: unexpected entry {ks}: {vs}")
            m[ks[4:-8]] = vs[6:]
        out[want] = m
    conv = _func(tree, "_convert_op")
    src = ast.unparse(conv)
    # constants: all qubits in order; parametric: first qubit and params[0]
    if "primitive_op_gate_mapping[mop.op.base_id](*[qubit_map[q].uid for q in qubits])" not in src:
        raise TranslateError("_convert_op: constant ops are not placed on their qubits in order")
    if "(qubit_map[qubits[0]].uid, cast(float, mop.op.id.params[0]))" not in src:
        raise TranslateError("_convert_op: parametric ops are not built from (first qubit, params[0])")
    return out["primitive_op_gate_mapping"], out["primitive_param_op_gate_mapping"]


def resolver_table(tree):
    lst = None
    for st in tree.body:
        tgt = st.target if isinstance(st, ast.AnnAssign) else (st.targets[0] if isinstance(st, ast.Assign) and len(st.targets) == 1 else None)
        if isinstance(tgt, ast.Name) and tgt.id == "_resolvers":
            lst = st.value
    if not isinstance(lst, ast.List):
        raise TranslateError("_resolvers is not a list literal")
    pairs, rots, others = {}, {}, []
    for e in lst.elts:
        if not (isinstance(e, ast.Tuple) and len(e.elts) == 2 and isinstance(e.elts[0], ast.Name)):
            raise TranslateError("_resolvers: unexpected entry " + ast.unparse(e))
        tgt, r = e.elts[0].id, e.elts[1]
        if isinstance(r, ast.Call) and isinstance(r.func, ast.Name) and len(r.args) == 1 and isinstance(r.args[0], ast.Name) \
                and not r.keywords:
            if r.func.id == "_inverse_rotation_resolver_gen":
                rots[tgt] = r.args[0].id
            elif r.func.id == "_inverse_op_resolver_gen":
                pairs[tgt] = r.args[0].id
            else:
                raise TranslateError("_resolvers: unknown generator " + r.func.id)
        elif isinstance(r, ast.Name):
            others.append((tgt, r.id))
        else:
            raise TranslateError("_resolvers: unexpected resolver " + ast.unparse(r))
    # the registration loop: every entry is registered for Inverse under inverse_target_condition(target)
    reg = [st for st in tree.body if isinstance(st, ast.For)]
    if len(reg) != 1 or ast.unparse(reg[0].iter) != "_resolvers" or ast.unparse(reg[0].target) != "(target, resolver)" or \
            [ast.unparse(s) for s in reg[0].body] != ["_repo.register_sub_resolver(Inverse, resolver, inverse_target_condition(target))"]:
        raise TranslateError("the registration loop over _resolvers has an unexpected shape")
    cond = ast.unparse(_func(tree, "inverse_target_condition"))
    if "return target_op.base_id == base_id" not in cond or "base_id = op.base_id" not in cond or "target_op = op_id.params[0]" not in cond:
        raise TranslateError("inverse_target_condition does not compare the target's base id")
    return pairs, rots, others


def generator_bodies(tree):
    # _inverse_rotation_resolver_gen: builder.add_op(op_factory(<sign> angle), builder.qubits) with angle = target.id.params[0]
    g = _func(tree, "_inverse_rotation_resolver_gen")
    inner = [n for n in g.body if isinstance(n, ast.FunctionDef)]
    if len(inner) != 1 or ast.unparse(g.body[-1]) != "return resolver":
        raise TranslateError("_inverse_rotation_resolver_gen: unexpected shape")
    body = [ast.unparse(s) for s in _strip_doc_asserts(inner[0].body)]
    exp_pre = ["target = op.id.params[0]", "angle = target.id.params[0]", "builder = SubBuilder(op.qubit_count, op.reg_count)"]
    if body[:3] != exp_pre or body[4:] != ["return builder.build()"] or len(body) != 5:
        raise TranslateError("_inverse_rotation_resolver_gen: unexpected body " + repr(body))
    if body[3] == "builder.add_op(op_factory(-angle), builder.qubits)":
        rot_scale = -1
    elif body[3] == "builder.add_op(op_factory(angle), builder.qubits)":
        rot_scale = 1
    else:
        raise TranslateError("_inverse_rotation_resolver_gen: unexpected operation " + body[3])
    g = _func(tree, "_inverse_op_resolver_gen")
    inner = [n for n in g.body if isinstance(n, ast.FunctionDef)]
    if len(inner) != 1 or ast.unparse(g.body[-1]) != "return resolver":
        raise TranslateError("_inverse_op_resolver_gen: unexpected shape")
    body = [ast.unparse(s) for s in _strip_doc_asserts(inner[0].body)]
    if body != ["target = op.id.params[0]", "builder = SubBuilder(op.qubit_count, op.reg_count)",
                "builder.add_op(inverse_op, builder.qubits)", "return builder.build()"]:
        raise TranslateError("_inverse_op_resolver_gen: unexpected body " + repr(body))
    return rot_scale


def sub_resolver_structure(tree):
    f = _func(tree, "inverse_sub_resolver")
    body = _strip_doc_asserts(f.body)
    src = [ast.unparse(s) for s in body]
    if src[0] != "target_op = op.id.params[0]":
        raise TranslateError("inverse_sub_resolver: the target is not params[0]")
    if src[1] != "if target_op.self_inverse:\n    return _single_op_sub(target_op)":
        raise TranslateError("inverse_sub_resolver: unexpected treatment of a self-inverse target")
    single = [ast.unparse(s) for s in _strip_doc_asserts(_func(tree, "_single_op_sub").body)]
    if single != ["b = SubBuilder(op.qubit_count, op.reg_count)", "b.add_op(op, b.qubits, b.registers)", "return b.build()"]:
        raise TranslateError("_single_op_sub: unexpected body")
    loops = [s for s in body if isinstance(s, ast.For)]
    if len(loops) != 1:
        raise TranslateError("inverse_sub_resolver: expected exactly one loop over the operations")
    lp = loops[0]
    if ast.unparse(lp.target) != "(o, qs, rs)":
        raise TranslateError("inverse_sub_resolver: unexpected loop target")
    it = ast.unparse(lp.iter)
    if it == "reversed(target_sub.operations)":
        rev = True
    elif it == "target_sub.operations":
        rev = False
    else:
        raise TranslateError("inverse_sub_resolver: unexpected traversal " + it)
    lb = [ast.unparse(s) for s in lp.body]
    if lb != ["qubits = tuple((qubit_map[q] for q in qs))", "regs = tuple((reg_map[r] for r in rs))",
              "if o.self_inverse:\n    io = o\nelif o.unitary:\n    io = Inverse(o)\nelse:\n    io = o",
              "builder.add_op(io, qubits, regs)"]:
        raise TranslateError("inverse_sub_resolver: unexpected loop body " + repr(lb))
    # the qubit map sends the target sub's own qubits to the builder's qubits in order and its auxiliaries to fresh ones
    need = ["builder = SubBuilder(op.qubit_count, op.reg_count)", "target_q = builder.qubits",
            "target_aq = tuple((builder.add_aux_qubit() for _ in target_sub.aux_qubits))",
            "qubit_map = dict(zip(target_sub.qubits, target_q)) | dict(zip(target_sub.aux_qubits, target_aq))"]
    for n in need:
        if n not in src:
            raise TranslateError("inverse_sub_resolver: missing statement " + n)
    after = src[src.index(ast.unparse(lp)) + 1:]
    phase = [s for s in after if s.startswith("builder.add_phase(")]
    if after[-1] != "return builder.build()" or len(after) > 2:
        raise TranslateError("inverse_sub_resolver: unexpected statements after the loop " + repr(after))
    if not phase:
        scale = 0
    elif phase == ["builder.add_phase(-target_sub.phase)"]:
        scale = -1
    elif phase == ["builder.add_phase(target_sub.phase)"]:
        scale = 1
    else:
        raise TranslateError("inverse_sub_resolver: unexpected phase statement " + repr(phase))
    if any("add_phase" in s for s in src[:src.index(ast.unparse(lp))]):
        raise TranslateError("inverse_sub_resolver: phase added before the loop")
    c = [ast.unparse(s) for s in _strip_doc_asserts(_func(tree, "inverse_controlled_resolver").body)]
    ctrl = c == ["target = op.id.params[0]", "inner_op = target.id.params[0]", "builder = SubBuilder(op.qubit_count, op.reg_count)",
                 "builder.add_op(Controlled(Inverse(inner_op)), builder.qubits)", "return builder.build()"]
    return rev, scale, ctrl


def run(repo, gen_dir, json_path):
    qsub = os.path.join(repo, "packages/qsub/quri_parts/qsub")
    flags = self_inverse_flags(os.path.join(qsub, "lib/std"))
    consts, params = gate_mappings(os.path.join(qsub, "eval/quriparts.py"))
    tree = _parse(os.path.join(qsub, "lib/std/inverse.py"))
    pairs, rots, others = resolver_table(tree)
    rot_scale = generator_bodies(tree)
    rev, phase_scale, ctrl = sub_resolver_structure(tree)
    rows, by_name = [], {}
    for op, gate in sorted(consts.items()):
        if op not in flags:
            raise TranslateError(f"primitive op {op} has no definition in lib/std")
        if gate not in GK:
            raise TranslateError(f"gate factory {gate} is not modelled")
        if flags[op]:
            inv = op
        elif op in pairs:
            inv = pairs[op]
        else:
            raise TranslateError(f"constant primitive {op} is neither self-inverse nor has an Inverse resolver")
        if inv not in consts:
            raise TranslateError(f"the inverse {inv} of {op} is not a constant primitive")
        rows.append((GK[gate], GK[consts[inv]]))
        by_name[op] = inv
    for op in pairs:
        if op not in consts:
            raise TranslateError(f"_resolvers has a pair for {op}, which is not a constant primitive")
        if flags.get(op):
            raise TranslateError(f"{op} is self-inverse and has an Inverse resolver as well")
    rot_rows = {}
    for op, gate in sorted(params.items()):
        if gate not in ROT_PAULI:
            raise TranslateError(f"parametric gate factory {gate} is not a rotation about one Pauli")
        if rots.get(op) != op:
            raise TranslateError(f"rotation op {op}: the Inverse resolver does not rebuild {op} itself")
        rot_rows[op] = ROT_PAULI[gate]
    for op in rots:
        if op not in params:
            raise TranslateError(f"_resolvers has a rotation resolver for {op}, which is not a parametric primitive")
    os.makedirs(gen_dir, exist_ok=True)
    b = lambda x: "true" if x else "false"  # noqa: E731
    txt = ("(* GENERATED by translate/qsub_inverse.py from /repo -- do not edit *)\n"
           "From Coq Require Import ZArith List Bool.\nFrom QP Require Import Gates.\nFrom QPM Require Import Pauli.\nImport ListNotations.\n\n"
           f"(* inverse_sub_resolver: traversal of the target's operations, factor of the target's phase *)\n"
           f"Definition qsub_inv_reversed : bool := {b(rev)}.\n"
           f"Definition qsub_inv_phase_scale : Z := ({phase_scale})%Z.\n"
           f"(* _inverse_rotation_resolver_gen: factor of the angle *)\nDefinition qsub_rot_scale : Z := ({rot_scale})%Z.\n"
           f"(* inverse_controlled_resolver builds Controlled(Inverse(inner)) on the same qubits *)\n"
           f"Definition qsub_controlled_inverse_is_controlled_of_inverse : bool := {b(ctrl)}.\n"
           "(* (gate kind of a constant primitive, gate kind of the op its Inverse resolves to); self-inverse ops map to themselves *)\n"
           "Definition qsub_pairs : list (gkind * gkind) :=\n  [" + "; ".join(f"({a}, {c})" for a, c in rows) + "].\n"
           "(* the rotation primitives: axis of the library gate they are evaluated to *)\n"
           "Definition qsub_rot_axes : list pauli := [" + "; ".join(rot_rows[o] for o in sorted(rot_rows)) + "].\n")
    with open(os.path.join(gen_dir, "qsubinv.v"), "w") as f:
        f.write(txt)
    js = {"reversed": rev, "phase_scale": phase_scale, "rot_scale": rot_scale, "controlled": ctrl, "inverse_of": by_name,
          "rotations": rot_rows, "other_resolvers": others, "self_inverse": {k: v for k, v in flags.items()}}
    with open(json_path, "w") as f:
        json.dump(js, f, indent=1, sort_keys=True)
    return js


if __name__ == "__main__":
    import sys
    print(json.dumps(run(sys.argv[1] if len(sys.argv) > 1 else "/repo", "/tmp/qsubinv_gen", "/tmp/qsubinv_gen/qsubinv.json"), indent=1))
