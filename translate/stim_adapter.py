"""TR-stim: fail-closed translation of the named-gate path of the quri-parts -> Stim converter
(packages/stim/.../circuit/__init__.py): the table `_stim_gate_str`, the set STIM_GATE_NAMES and the shape of
convert_gate / convert_circuit (every Clifford-named gate other than Pauli is emitted as `<stim name> <controls targets>`).
Stim's gate names are read through a CONTRACT (SQRT_X = SqrtX, S_DAG = Sdag, CNOT / CZ controls first ...) validated on
every run against stim.Tableau.from_named_gate(...).to_unitary_matrix (corr_C03_stim.py).  Rotation gates at Clifford
angles go through CliffordApproximationTranspiler first and are left to the sweep.  Never evaluates repository code."""
from __future__ import annotations

import ast
import json
import os

from vlib.common import REPO
from translate.templates import KINDS, TranslateError
from translate.tables import _parse

PATH = os.path.join(REPO, "packages/stim/quri_parts/stim/circuit/__init__.py")
GN_PATH = os.path.join(REPO, "packages/circuit/quri_parts/circuit/gate_names.py")

STIM_CONTRACT = {"I": "Identity", "X": "X", "Y": "Y", "Z": "Z", "H": "H", "S": "S", "S_DAG": "Sdag", "SQRT_X": "SqrtX",
                 "SQRT_X_DAG": "SqrtXdag", "SQRT_Y": "SqrtY", "SQRT_Y_DAG": "SqrtYdag", "CNOT": "CNOT", "CZ": "CZ", "SWAP": "SWAP"}


def extract():
    tree = _parse(PATH)
    tab, names = None, None
    for node in tree.body:
        if isinstance(node, ast.AnnAssign) and isinstance(node.target, ast.Name):
            if node.target.id == "_stim_gate_str" and isinstance(node.value, ast.Dict):
                tab = {}
                for k, v in zip(node.value.keys, node.value.values):
                    if not (isinstance(k, ast.Attribute) and isinstance(k.value, ast.Name) and k.value.id == "gate_names"
                            and isinstance(v, ast.Constant) and isinstance(v.value, str)):
                        raise TranslateError("_stim_gate_str: unexpected entry")
                    tab[k.attr] = v.value
            if node.target.id == "STIM_GATE_NAMES" and isinstance(node.value, ast.Set):
                names = {e.id for e in node.value.elts if isinstance(e, ast.Name)}
    if tab is None or names is None:
        raise TranslateError("_stim_gate_str / STIM_GATE_NAMES not found")
    if set(tab) != names:
        raise TranslateError("STIM_GATE_NAMES and _stim_gate_str disagree")
    gn = _parse(GN_PATH)
    cliff = None
    for node in gn.body:
        tgt = node.target if isinstance(node, ast.AnnAssign) else (node.targets[0] if isinstance(node, ast.Assign) else None)
        if isinstance(tgt, ast.Name) and tgt.id == "CLIFFORD_GATE_NAMES" and isinstance(node.value, ast.Set):
            cliff = {e.id for e in node.value.elts if isinstance(e, ast.Name)}
    if cliff is None:
        raise TranslateError("CLIFFORD_GATE_NAMES not found")
    fns = {n.name: n for n in tree.body if isinstance(n, ast.FunctionDef)}
    src = ast.unparse(fns["convert_gate"])
    need = ["if gate.name in CLIFFORD_GATE_NAMES:", "if gate.name == gate_names.Pauli:",
            "transpiled_gates = PauliDecomposeTranspiler().decompose(gate)", "transpiled_gates = [gate]",
            "elif is_clifford(gate):", "transpiled_gates = CliffordApproximationTranspiler().decompose(gate)",
            "raise ValueError(", "for gate in transpiled_gates:", "if _is_stim_supported_gate_name(gate.name):",
            "stim_gate_str = _stim_gate_str[gate.name]", "targets = [*gate.control_indices, *gate.target_indices]",
            "ret.append((stim_gate_str, targets))", "return ret"]
    pos = 0
    for frag in need:
        j = src.find(frag, pos)
        if j < 0:
            raise TranslateError(f"convert_gate: expected `{frag}` (in this order)")
        pos = j + len(frag)
    if ast.unparse(fns["_is_stim_supported_gate_name"].body[-1]) != "return gate_name in STIM_GATE_NAMES":
        raise TranslateError("_is_stim_supported_gate_name is not a membership test of STIM_GATE_NAMES")
    src2 = ast.unparse(fns["convert_circuit"])
    for frag in ("for gate in circuit.gates:", "clifford_gates = convert_gate(gate)", "s_indices = [str(index) for index in cliff_gate[1]]",
                 "return StimCircuit(gate_str)"):
        if frag not in src2:
            raise TranslateError(f"convert_circuit: expected `{frag}`")
    # the line written per gate: f"{cliff_gate[0]} {' '.join(s_indices)} \n" (compared structurally: the text ast.unparse
    # gives for an f-string depends on the Python version)
    lines = [n for n in ast.walk(fns["convert_circuit"]) if isinstance(n, ast.AugAssign) and ast.unparse(n.target) == "gate_str"]
    shape = None
    if len(lines) == 1 and isinstance(lines[0].op, ast.Add) and isinstance(lines[0].value, ast.JoinedStr):
        shape = [("c", v.value) if isinstance(v, ast.Constant) else ("f", ast.unparse(v.value), v.conversion, v.format_spec)
                 for v in lines[0].value.values]
    if shape != [("f", "cliff_gate[0]", -1, None), ("c", " "), ("f", "' '.join(s_indices)", -1, None), ("c", " \n")]:
        raise TranslateError("convert_circuit: expected `gate_str += f\"{cliff_gate[0]} {' '.join(s_indices)} \\n\"`")
    conv = {}
    for name in KINDS:
        if name in cliff and name != "Pauli":
            if name not in tab:
                raise TranslateError(f"Clifford-named gate {name} has no Stim name (assert False would fire)")
            conv[name] = tab[name]
    return conv


def emit(gen_dir, json_path):
    conv = extract()
    rows = []
    for name in sorted(conv):
        k, ar, nc, npar = KINDS[name]
        lib = STIM_CONTRACT.get(conv[name])
        if lib is None:
            raise TranslateError(f"Stim gate {conv[name]} has no contract")
        lk, lar, lnc, lnpar = KINDS[lib]
        if lar != ar or lnpar != 0:
            raise TranslateError(f"{name} -> {conv[name]}: arity mismatch")
        rows.append(f"({k}, mkG {lk} [{'; '.join(str(i) for i in range(ar))}]%nat [])")
    src = ("(* GENERATED by translate/stim_adapter.py from /repo -- do not edit *)\n"
           "From Coq Require Import ZArith List.\nFrom QP Require Import Gates.\nImport ListNotations.\n\n"
           "(* (Clifford-named library kind, the Stim gate emitted for it on controls followed by targets) *)\n"
           "Definition stim_conv : list (gkind * gate) :=\n  [" + ";\n   ".join(rows) + "].\n")
    open(os.path.join(gen_dir, "stimconv.v"), "w").write(src)
    json.dump({"convert_gate": conv, "contract": STIM_CONTRACT}, open(json_path, "w"), indent=1)
    return conv


if __name__ == "__main__":
    print(json.dumps(extract()))
