"""TR-param: fail-closed translator of the hand-written parametric rewriting transpilers
(ParametricRX2RZHTranspiler, ParametricRY2RZHTranspiler in transpile/gateset.py).

Their __call__ must have exactly this shape (anything else raises TranslateError):

    ret = LinearMappedParametricQuantumCircuit(circuit.qubit_count, circuit.cbit_count)
    ret._param_mapping = LinearParameterMapping(circuit.param_mapping.in_params)
    pmap = circuit.param_mapping.mapping
    for gate, param in circuit.primitive_circuit().gates_and_params:
        if isinstance(gate, QuantumGate):
            ret.add_gate(gate)
        else:
            if param is None: raise ...
            qubit = gate.target_indices[0]
            if gate.name == ParametricRX: <emissions> elif ... else: raise ...
    return ret

and every emission is ret.add_<Fixed>_gate(qubit[, const angle]) or
ret.add_Parametric<RX|RY|RZ>_gate(qubit, pmap[param]) or
ret.add_ParametricPauliRotation_gate(gate.target_indices, gate.pauli_ids, pmap[param]).

Output: per class, per parametric kind, the emission list; emitted to Coq as templates over qubit
role 0 with the parametric angle as ang_var 0."""
from __future__ import annotations

import ast
import json
import os

from translate import templates as T
from vlib.common import REPO

FILE = os.path.join(REPO, "packages/circuit/quri_parts/circuit/transpile/gateset.py")
CLASSES = ["ParametricRX2RZHTranspiler", "ParametricRY2RZHTranspiler"]
PKINDS = {"ParametricRX": "RX", "ParametricRY": "RY", "ParametricRZ": "RZ", "ParametricPauliRotation": "PauliRotation"}


def _src(node):
    return ast.unparse(node)


def _expect(cond, node, msg):
    if not cond:
        T._fail(node, msg)


def _emission(stmt):
    _expect(isinstance(stmt, ast.Expr) and isinstance(stmt.value, ast.Call), stmt, "expected a call statement")
    call = stmt.value
    f = call.func
    _expect(isinstance(f, ast.Attribute) and isinstance(f.value, ast.Name) and f.value.id == "ret", stmt,
            "expected ret.add_*_gate(...)")
    _expect(not call.keywords, stmt, "keyword arguments not supported")
    m = f.attr
    _expect(m.startswith("add_") and m.endswith("_gate"), stmt, f"unexpected method {m}")
    name = m[4:-5]
    args = call.args
    if name == "ParametricPauliRotation":
        _expect([_src(a) for a in args] == ["gate.target_indices", "gate.pauli_ids", "pmap[param]"], stmt,
                "ParametricPauliRotation must be re-added intact")
        return {"kind": "intact_pauli_rotation"}
    if name in ("ParametricRX", "ParametricRY", "ParametricRZ"):
        _expect([_src(a) for a in args] == ["qubit", "pmap[param]"], stmt, "parametric gate must use (qubit, pmap[param])")
        return {"kind": "param", "name": PKINDS[name]}
    _expect(name in T.KINDS and T.KINDS[name][1] == 1, stmt, f"unsupported fixed gate {name}")
    npar = T.KINDS[name][3]
    _expect(len(args) == 1 + npar and _src(args[0]) == "qubit", stmt, "fixed gate must act on `qubit`")
    angs = [T._angle(a, {}).to_json(0) for a in args[1:]]
    return {"kind": "fixed", "name": name, "angles": angs}


def _extract_class(cls: ast.ClassDef):
    calls = [n for n in cls.body if isinstance(n, ast.FunctionDef)]
    _expect(len(calls) == 1 and calls[0].name == "__call__", cls, "expected exactly one method __call__")
    fn = calls[0]
    body = fn.body
    _expect(len(body) == 5, fn, "unexpected number of statements in __call__")
    _expect(_src(body[0]).replace("\n", "").replace(" ", "") ==
            "ret=LinearMappedParametricQuantumCircuit(circuit.qubit_count,circuit.cbit_count)", body[0], "unexpected header")
    _expect(_src(body[1]) == "ret._param_mapping = LinearParameterMapping(circuit.param_mapping.in_params)", body[1],
            "unexpected mapping header")
    _expect(_src(body[2]) == "pmap = circuit.param_mapping.mapping", body[2], "unexpected pmap")
    loop = body[3]
    _expect(isinstance(loop, ast.For) and _src(loop.target) == "(gate, param)"
            and _src(loop.iter) == "circuit.primitive_circuit().gates_and_params" and not loop.orelse, loop, "unexpected loop")
    _expect(_src(body[4]) == "return ret", body[4], "unexpected return")
    _expect(len(loop.body) == 1 and isinstance(loop.body[0], ast.If), loop, "unexpected loop body")
    top = loop.body[0]
    _expect(_src(top.test) == "isinstance(gate, QuantumGate)", top, "unexpected gate test")
    _expect(len(top.body) == 1 and _src(top.body[0]) == "ret.add_gate(gate)", top, "fixed gates must be copied")
    par = top.orelse
    _expect(len(par) == 3, top, "unexpected parametric branch")
    _expect(isinstance(par[0], ast.If) and _src(par[0].test) == "param is None" and isinstance(par[0].body[0], ast.Raise)
            and not par[0].orelse, par[0], "unexpected None check")
    _expect(_src(par[1]) == "qubit = gate.target_indices[0]", par[1], "unexpected qubit binding")
    chain = par[2]
    out = {}
    while True:
        _expect(isinstance(chain, ast.If), chain, "expected if/elif chain on gate.name")
        t = chain.test
        _expect(isinstance(t, ast.Compare) and _src(t.left) == "gate.name" and len(t.ops) == 1
                and isinstance(t.ops[0], ast.Eq), t, "expected gate.name == <kind>")
        kname = T._gate_name_const(t.comparators[0])
        _expect(kname in PKINDS and PKINDS[kname] not in out, t, f"unexpected kind {kname}")
        stmts = [s for s in chain.body if _src(s) != "qubit = gate.target_indices[0]"]
        out[PKINDS[kname]] = [_emission(s) for s in stmts]
        if len(chain.orelse) == 1 and isinstance(chain.orelse[0], ast.If):
            chain = chain.orelse[0]
            continue
        _expect(len(chain.orelse) == 1 and isinstance(chain.orelse[0], ast.Raise), chain, "chain must end with raise")
        break
    _expect(set(out) == set(PKINDS.values()), cls, "all four parametric kinds must be handled")
    for k, ems in out.items():
        n_par = sum(1 for e in ems if e["kind"] in ("param", "intact_pauli_rotation"))
        _expect(n_par == 1, cls, f"branch {k} must emit exactly one parametric gate")
        if k == "PauliRotation":
            _expect(ems == [{"kind": "intact_pauli_rotation"}], cls, "PauliRotation must be copied intact")
    return out


def extract():
    tree = ast.parse(open(FILE).read())
    T.ENV = T.Env(tree)
    res = {}
    for node in tree.body:
        if isinstance(node, ast.ClassDef) and node.name in CLASSES:
            res[node.name] = _extract_class(node)
    if set(res) != set(CLASSES):
        raise T.TranslateError(f"classes not found: {set(CLASSES) - set(res)}")
    return res


def _coq_body(ems):
    gs = []
    for e in ems:
        if e["kind"] == "param":
            gs.append(f"mkG {T.KINDS[e['name']][0]} [0]%nat [ang_var 0]")
        elif e["kind"] == "fixed":
            angs = "; ".join(T.coq_ang(a) for a in e["angles"])
            gs.append(f"mkG {T.KINDS[e['name']][0]} [0]%nat [{angs}]")
    return "[" + "; ".join(gs) + "]"


def emit_coq(res):
    out = ["(* GENERATED by translate/parametric.py from /repo -- do not edit *)",
           "From Coq Require Import ZArith List String.", "From QP Require Import Gates.",
           "From QPM Require Import Transpile.", "Import ListNotations.", "Open Scope string_scope.", ""]
    for cname in CLASSES:
        for k in ("RX", "RY", "RZ"):
            out.append(f"Definition ptmpl_{cname}_{k} : template :=\n  mkT \"{cname}_{k}\" [{T.KINDS[k][0]}] "
                       f"{_coq_body(res[cname][k])}.")
        out.append(f"Definition ptmpls_{cname} : list template := [ptmpl_{cname}_RX; ptmpl_{cname}_RY; ptmpl_{cname}_RZ].\n")
    return "\n".join(out)


def run(gen_dir, json_path):
    res = extract()
    with open(os.path.join(gen_dir, "ptemplates.v"), "w") as f:
        f.write(emit_coq(res))
    with open(json_path, "w") as f:
        json.dump(res, f, indent=1)
    return res


if __name__ == "__main__":
    r = extract()
    print(json.dumps(r, indent=1))
    print(emit_coq(r))
