"""TR-tket / TR-tket-rev: fail-closed translation of the tket adapter
  packages/tket/.../circuit/circuit_converter.py       : convert_circuit (with convert_gate)
  packages/tket/.../circuit/tket_circuit_converter.py  : circuit_from_tket

Forward: the body of the loop over `circuit.gates` is one if/elif chain on `gate.name`; for every modelled kind the branch
taken is executed symbolically: which qubits the tket operation is added on (`target_qubit`, `(*control_qubit,
*target_qubit)`, ...), which parameters (`array(gate.params) / pi`: the scale is kept symbolically as a rational times a
power of pi), and what `convert_gate(gate)` returns for that kind (an OpType of a table, or Unitary1qBox of a literal
matrix, translated entry by entry).  Reverse: the chain on `operation.op.type` gives, for every OpType a branch accepts,
the library gate added (name from the table indexed, control / target roles from the unpacking of `qubits`, parameters
`array(operation.op.params) * pi`).  tket's gates are read through a CONTRACT: OpType name -> library kind with controls
first and ANGLES IN HALF-TURNS (OpType.Rx(a) = RX(pi a), U1/U2/U3 likewise); validated numerically against the installed
pytket on every run (corr_C03_tket.py).  Matrix boxes of UnitaryMatrix gates are outside the modelled vocabulary (sweeps;
two listed findings).  Never evaluates repository code."""
from __future__ import annotations

import ast
import json
import os
from fractions import Fraction

from vlib.common import REPO
from translate.templates import KINDS, TranslateError
from translate.adapters import _name_sets
from translate.tables import _parse
from translate.braket_adapter import _gauss

FWD = os.path.join(REPO, "packages/tket/quri_parts/tket/circuit/circuit_converter.py")
REV = os.path.join(REPO, "packages/tket/quri_parts/tket/circuit/tket_circuit_converter.py")

TKET_CONTRACT = {
    "noop": "Identity", "X": "X", "Y": "Y", "Z": "Z", "H": "H", "S": "S", "Sdg": "Sdag", "SX": "SqrtX", "SXdg": "SqrtXdag",
    "T": "T", "Tdg": "Tdag", "U1": "U1", "U2": "U2", "U3": "U3", "Rx": "RX", "Ry": "RY", "Rz": "RZ", "CX": "CNOT", "CZ": "CZ",
    "SWAP": "SWAP", "CCX": "TOFFOLI",
}


def _optype(node):
    if isinstance(node, ast.Attribute) and isinstance(node.value, ast.Name) and node.value.id == "OpType":
        return node.attr
    raise TranslateError(f"expected OpType.<Name>, got {ast.unparse(node)}")


def _libname(node):
    if isinstance(node, ast.Attribute) and isinstance(node.value, ast.Name) and node.value.id == "gate_names":
        return node.attr
    raise TranslateError(f"expected gate_names.<Name>, got {ast.unparse(node)}")


def _matrix(v, where):
    rows = []
    if not isinstance(v, ast.List):
        raise TranslateError(f"{where}: not a matrix literal")
    for r in v.elts:
        if not isinstance(r, ast.List):
            raise TranslateError(f"{where}: not a matrix literal")
        row = []
        for e in r.elts:
            z = complex(ast.literal_eval(e))
            re2, im2 = Fraction(z.real).limit_denominator(64) * 2, Fraction(z.imag).limit_denominator(64) * 2
            if re2.denominator != 1 or im2.denominator != 1 or complex(float(re2) / 2, float(im2) / 2) != z:
                raise TranslateError(f"{where}: entry {z} is not a half-integer Gaussian number")
            row.append((int(re2), int(im2)))
        rows.append(row)
    if len(rows) != 2 or any(len(r) != 2 for r in rows):
        raise TranslateError(f"{where}: not 2 x 2")
    return rows


def _const(node):
    """constant expression over pi and numbers -> (Fraction, power of pi)"""
    if isinstance(node, ast.Name) and node.id == "pi":
        return Fraction(1), 1
    if isinstance(node, ast.Attribute) and ast.unparse(node) in ("np.pi", "math.pi", "numpy.pi"):
        return Fraction(1), 1
    if isinstance(node, ast.Constant) and isinstance(node.value, (int, float)) and not isinstance(node.value, bool):
        f = Fraction(node.value).limit_denominator(1 << 20)
        if float(f) != float(node.value):
            raise TranslateError(f"constant {node.value} is not a small rational")
        return f, 0
    if isinstance(node, ast.BinOp) and isinstance(node.op, (ast.Mult, ast.Div)):
        a, pa = _const(node.left)
        b, pb = _const(node.right)
        if isinstance(node.op, ast.Mult):
            return a * b, pa + pb
        if b == 0:
            raise TranslateError("division by zero")
        return a / b, pa - pb
    if isinstance(node, ast.UnaryOp) and isinstance(node.op, ast.USub):
        a, pa = _const(node.operand)
        return -a, pa
    raise TranslateError(f"unsupported constant expression {ast.unparse(node)}")


def _scale(node, src_expr):
    """array(<src_expr>) (*|/) const -> (Fraction, power of pi)"""
    if isinstance(node, ast.BinOp) and isinstance(node.op, (ast.Mult, ast.Div)) and isinstance(node.left, ast.Call) \
            and ast.unparse(node.left) == f"array({src_expr})":
        c, p = _const(node.right)
        if isinstance(node.op, ast.Div):
            if c == 0:
                raise TranslateError("division by zero")
            return 1 / c, -p
        return c, p
    raise TranslateError(f"unsupported parameter expression {ast.unparse(node)}")


def _chain_of(loop):
    ifs = [s for s in loop.body if isinstance(s, ast.If)]
    if len(ifs) != 1 or loop.body[-1] is not ifs[0]:
        raise TranslateError("the loop body must end with one if/elif chain")
    branches, node = [], ifs[0]
    while True:
        branches.append((node.test, node.body))
        if len(node.orelse) == 1 and isinstance(node.orelse[0], ast.If):
            node = node.orelse[0]
        else:
            if not (len(node.orelse) == 1 and isinstance(node.orelse[0], ast.Raise)):
                raise TranslateError("the final else must raise")
            break
    return loop.body[:-1], branches


# --------------------------------------------------------------------------------------------------- forward
def extract_forward():
    tree = _parse(FWD)
    preds = _name_sets()
    op_tabs, mat_tabs = {}, {}
    for node in tree.body:
        if isinstance(node, ast.AnnAssign) and isinstance(node.target, ast.Name) and isinstance(node.value, ast.Dict):
            keys = [_libname(k) for k in node.value.keys]
            vals = node.value.values
            if all(isinstance(v, ast.Attribute) for v in vals):
                op_tabs[node.target.id] = {k: _optype(v) for k, v in zip(keys, vals)}
            elif all(isinstance(v, ast.List) for v in vals):
                mat_tabs[node.target.id] = {k: _matrix(v, f"{node.target.id}[{k}]") for k, v in zip(keys, vals)}
            else:
                raise TranslateError(f"{node.target.id}: unsupported table")
    tabs = {**op_tabs, **mat_tabs}
    fns = {n.name: n for n in tree.body if isinstance(n, ast.FunctionDef)}
    for need in ("convert_gate", "convert_circuit"):
        if need not in fns:
            raise TranslateError(f"{need} not found")

    def test(node, name):
        if isinstance(node, ast.Call) and isinstance(node.func, ast.Name) and node.func.id in preds \
                and ast.unparse(node.args[0]) == "gate.name":
            return name in preds[node.func.id]
        if isinstance(node, ast.Compare) and len(node.ops) == 1 and ast.unparse(node.left) == "gate.name":
            r = node.comparators[0]
            if isinstance(node.ops[0], ast.In) and isinstance(r, ast.Name) and r.id in tabs:
                return name in tabs[r.id]
            if isinstance(node.ops[0], ast.Eq) and isinstance(r, ast.Constant) and isinstance(r.value, str):
                return name == r.value
        raise TranslateError(f"unsupported test {ast.unparse(node)}")

    def conv_gate(stmts, name):
        for st in stmts:
            if isinstance(st, ast.If):
                r = conv_gate(st.body if test(st.test, name) else st.orelse, name)
                if r is not None:
                    return r
            elif isinstance(st, ast.Return):
                v = st.value
                if isinstance(v, ast.Subscript) and isinstance(v.value, ast.Name) and v.value.id in op_tabs \
                        and ast.unparse(v.slice) == "gate.name":
                    if name not in op_tabs[v.value.id]:
                        return "raise"      # KeyError
                    return {"optype": op_tabs[v.value.id][name]}
                if isinstance(v, ast.Call) and ast.unparse(v.func) == "Unitary1qBox" and len(v.args) == 1:
                    a = v.args[0]
                    if isinstance(a, ast.Subscript) and isinstance(a.value, ast.Name) and a.value.id in mat_tabs \
                            and ast.unparse(a.slice) == "gate.name":
                        return {"box1": mat_tabs[a.value.id][name]}
                    return "matrix-gate"
                raise TranslateError(f"unsupported return {ast.unparse(v)}")
            elif isinstance(st, ast.Raise):
                return "raise"
            elif isinstance(st, ast.Expr) and isinstance(st.value, ast.Constant):
                continue
            else:
                raise TranslateError(f"convert_gate: unsupported statement {type(st).__name__}")
        return None

    cc = fns["convert_circuit"]
    loops = [s for s in cc.body if isinstance(s, ast.For)]
    if len(loops) != 1 or f"for {ast.unparse(loops[0].target)} in {ast.unparse(loops[0].iter)}" != "for gate in circuit.gates":
        raise TranslateError("convert_circuit: expected one loop `for gate in circuit.gates`")
    pre, branches = _chain_of(loops[0])
    if pre:
        raise TranslateError("convert_circuit: statements before the chain")

    conv = {}
    for name, (ck, ar, nc, npar) in KINDS.items():
        body = None
        for t, b in branches:
            if test(t, name):
                body = b
                break
        if body is None:
            conv[name] = "raise"
            continue
        env, result = {}, None
        for st in body:
            if isinstance(st, ast.Assign) and len(st.targets) == 1 and isinstance(st.targets[0], ast.Name):
                tgt, s = st.targets[0].id, ast.unparse(st.value)
                if s in ("gate.target_indices", "tuple(gate.target_indices)"):
                    env[tgt] = ("q", list(range(nc, ar)))
                elif s in ("gate.control_indices", "tuple(gate.control_indices)"):
                    env[tgt] = ("q", list(range(nc)))
                else:
                    c, p = _scale(st.value, "gate.params")
                    env[tgt] = ("p", c, p)
            elif isinstance(st, ast.Expr) and isinstance(st.value, ast.Call):
                call = st.value
                f = ast.unparse(call.func)
                args = list(call.args)
                if not args or ast.unparse(args[0]) != "convert_gate(gate)":
                    raise TranslateError(f"unsupported call {ast.unparse(call)}")
                g = conv_gate(fns["convert_gate"].body, name)
                if g is None:
                    raise TranslateError(f"convert_gate({name}) falls through")

                def qexpr(node):
                    if isinstance(node, ast.Name) and node.id in env and env[node.id][0] == "q":
                        return env[node.id][1]
                    if isinstance(node, ast.Tuple) and all(isinstance(e, ast.Starred) for e in node.elts):
                        return sum((qexpr(e.value) for e in node.elts), [])
                    if isinstance(node, ast.BinOp) and isinstance(node.op, ast.Add):
                        return qexpr(node.left) + qexpr(node.right)
                    if isinstance(node, ast.Subscript) and isinstance(node.slice, ast.Constant):
                        return [qexpr(node.value)[node.slice.value]]
                    if isinstance(node, ast.Starred):
                        return qexpr(node.value)
                    raise TranslateError(f"unsupported qubit expression {ast.unparse(node)}")
                if f == "tket_circuit.add_gate":
                    if g in ("raise", "matrix-gate") or "optype" not in g:
                        raise TranslateError(f"{name}: add_gate needs an OpType from convert_gate")
                    if len(args) == 2:
                        result = {"optype": g["optype"], "roles": qexpr(args[1]), "scale": None}
                    elif len(args) == 3 and isinstance(args[1], ast.Name) and env.get(args[1].id, ("",))[0] == "p":
                        _, c, p = env[args[1].id]
                        result = {"optype": g["optype"], "roles": qexpr(args[2]), "scale": [str(c), p]}
                    else:
                        raise TranslateError(f"unsupported add_gate arguments {ast.unparse(call)}")
                elif f == "tket_circuit.add_unitary1qbox":
                    if g == "matrix-gate":
                        result = "matrix-gate"
                    elif isinstance(g, dict) and "box1" in g and len(args) == 2:
                        result = {"box1": g["box1"], "roles": qexpr(args[1])}
                    else:
                        raise TranslateError(f"{name}: add_unitary1qbox needs a Unitary1qBox from convert_gate")
                else:
                    raise TranslateError(f"unsupported call {f}")
            elif isinstance(st, (ast.If, ast.Raise)):
                result = result or "matrix-gate"      # the UnitaryMatrix branch (arity dispatch)
            else:
                raise TranslateError(f"convert_circuit: unsupported statement {type(st).__name__}")
        if result is None:
            raise TranslateError(f"convert_circuit adds nothing for {name}")
        conv[name] = result
    return conv


def _ang(i, scale, contract_pow):
    """parameter i scaled by `scale`, read through a contract that multiplies by pi^contract_pow"""
    if scale is None:
        raise TranslateError("a parametric tket gate without parameters")
    c, p = Fraction(scale[0]), scale[1]
    if p + contract_pow != 0 or c.denominator != 1:
        raise TranslateError(f"angle scale {c} * pi^{p + contract_pow} is outside the angle language (integer multiples)")
    return f"ang_var {i}" if c == 1 else f"(mkAng 0 (repeat 0%Z {i} ++ [({int(c)})%Z]))"


def emit_forward(gen_dir, json_path):
    conv = extract_forward()
    rows, rejected = [], []
    for name in sorted(conv):
        r = conv[name]
        k, ar, nc, npar = KINDS[name]
        if r == "raise":
            rejected.append(k)
            continue
        if r == "matrix-gate":
            raise TranslateError(f"modelled kind {name} is converted through a matrix box of unknown content")
        roles = "; ".join(str(x) for x in r["roles"])
        if "box1" in r:
            (a, b), (c, d) = r["box1"]
            if len(r["roles"]) != 1:
                raise TranslateError(f"{name}: a one qubit box on {len(r['roles'])} qubits")
            rows.append(f"({k}, TMatrix (mkE (m2 {_gauss(*a)} {_gauss(*b)} {_gauss(*c)} {_gauss(*d)}) 2 [{roles}]%nat))")
            continue
        lib = TKET_CONTRACT.get(r["optype"])
        if lib is None:
            raise TranslateError(f"OpType.{r['optype']} has no contract")
        lk, lar, lnc, lnpar = KINDS[lib]
        if lar != ar or len(r["roles"]) != ar or (lnpar > 0 and lnpar != npar) or (lnpar == 0 and r["scale"] is not None):
            raise TranslateError(f"{name} -> OpType.{r['optype']}: arity/parameter mismatch")
        angs = "; ".join(_ang(i, r["scale"], 1) for i in range(lnpar))
        rows.append(f"({k}, TLib (mkG {lk} [{roles}]%nat [{angs}]))")
    src = ("(* GENERATED by translate/tket_adapter.py from /repo -- do not edit *)\n"
           "From Coq Require Import ZArith List.\nFrom QP Require Import Zw Lpoly FMat Local Gates.\nImport ListNotations.\n\n"
           "Inductive tket_gate := TLib (g : gate) | TMatrix (e : egate).\n\n"
           "(* (library kind, what convert_circuit adds for the canonical gate of that kind: a tket OpType read through the\n"
           "   contract (angles in half-turns), or Unitary1qBox of a literal matrix of the converter) *)\n"
           "Definition tket_conv : list (gkind * tket_gate) :=\n  [" + ";\n   ".join(rows) + "].\n\n"
           "(* kinds convert_circuit rejects with an error *)\n"
           f"Definition tket_rejected : list gkind := [{'; '.join(rejected)}].\n")
    open(os.path.join(gen_dir, "tketconv.v"), "w").write(src)
    json.dump({"convert": conv, "contract": TKET_CONTRACT}, open(json_path, "w"), indent=1)
    return conv


# --------------------------------------------------------------------------------------------------- reverse
def extract_reverse():
    tree = _parse(REV)
    tabs = {}
    for node in tree.body:
        if isinstance(node, ast.AnnAssign) and isinstance(node.target, ast.Name) and isinstance(node.value, ast.Dict):
            tabs[node.target.id] = {_optype(k): _libname(v) for k, v in zip(node.value.keys, node.value.values)}
    fns = [n for n in tree.body if isinstance(n, ast.FunctionDef) and n.name == "circuit_from_tket"]
    if len(fns) != 1:
        raise TranslateError("circuit_from_tket not found")
    loops = [s for s in fns[0].body if isinstance(s, ast.For)]
    if len(loops) != 1 or f"for {ast.unparse(loops[0].target)} in {ast.unparse(loops[0].iter)}" != "for operation in tket_circuit":
        raise TranslateError("circuit_from_tket: expected one loop `for operation in tket_circuit`")
    pre, branches = _chain_of(loops[0])
    pre_src = [ast.unparse(s) for s in pre]
    want = ["gate_name = operation.op.type",
            "qubit_converter: Callable[[Qubit], int] = lambda qubit: int(qubit.index[0])",
            "qubits = list(map(qubit_converter, cast(Sequence[Qubit], operation.qubits)))"]
    if pre_src != want:
        raise TranslateError(f"circuit_from_tket: unexpected prologue {pre_src}")
    rows, skipped, seen = [], [], set()
    for test, body in branches:
        if isinstance(test, ast.BoolOp) and isinstance(test.op, ast.Or):
            ks = []
            for c in test.values:
                if not (isinstance(c, ast.Compare) and ast.unparse(c.left) == "gate_name" and isinstance(c.ops[0], ast.Eq)):
                    raise TranslateError(f"unsupported test {ast.unparse(test)}")
                ks.append(_optype(c.comparators[0]))
            if not all(k.startswith("Unitary") and k.endswith("qBox") for k in ks):
                raise TranslateError(f"unsupported disjunction {ast.unparse(test)}")
            skipped += ks
            continue
        if not (isinstance(test, ast.Compare) and len(test.ops) == 1 and ast.unparse(test.left) == "gate_name"):
            raise TranslateError(f"unsupported test {ast.unparse(test)}")
        r = test.comparators[0]
        if isinstance(test.ops[0], ast.In) and isinstance(r, ast.Name) and r.id in tabs:
            keys = list(tabs[r.id])
        elif isinstance(test.ops[0], ast.In) and isinstance(r, ast.List):
            keys = [_optype(e) for e in r.elts]
        elif isinstance(test.ops[0], ast.Eq):
            keys = [_optype(r)]
        else:
            raise TranslateError(f"unsupported test {ast.unparse(test)}")
        keys = [k for k in keys if k not in seen]
        seen.update(keys)
        env, scale, added = {}, None, None
        for st in body:
            if isinstance(st, ast.Assign) and len(st.targets) == 1 and isinstance(st.targets[0], ast.Tuple) \
                    and ast.unparse(st.value) == "qubits":
                for i, t in enumerate(st.targets[0].elts):
                    env[t.id] = i
                env["#unpacked"] = len(st.targets[0].elts)
            elif isinstance(st, ast.Assign) and len(st.targets) == 1 and isinstance(st.targets[0], ast.Name):
                scale = (st.targets[0].id,) + _scale(st.value, "operation.op.params")
            elif isinstance(st, ast.Expr) and isinstance(st.value, ast.Call) and ast.unparse(st.value.func) == "circuit.add_gate" \
                    and len(st.value.args) == 1 and isinstance(st.value.args[0], ast.Call) \
                    and ast.unparse(st.value.args[0].func) == "QuantumGate" and not st.value.args[0].args:
                kw = {k.arg: k.value for k in st.value.args[0].keywords}
                if set(kw) - {"name", "target_indices", "control_indices", "params"}:
                    raise TranslateError(f"unsupported QuantumGate keywords {sorted(kw)}")
                nm = kw["name"]
                if not (isinstance(nm, ast.Subscript) and isinstance(nm.value, ast.Name) and nm.value.id in tabs
                        and ast.unparse(nm.slice) == "gate_name"):
                    raise TranslateError(f"unsupported name expression {ast.unparse(nm)}")

                def refs(node):
                    if node is None:
                        return []
                    if not isinstance(node, ast.Tuple):
                        raise TranslateError(f"indices must be a literal tuple, got {ast.unparse(node)}")
                    out = []
                    for e in node.elts:
                        if isinstance(e, ast.Name) and e.id in env:
                            out.append(env[e.id])
                        elif isinstance(e, ast.Subscript) and ast.unparse(e.value) == "qubits" and isinstance(e.slice, ast.Constant):
                            out.append(e.slice.value)
                        else:
                            raise TranslateError(f"unsupported qubit reference {ast.unparse(e)}")
                    return out
                par = None
                if "params" in kw:
                    if scale is None or ast.unparse(kw["params"]) != f"tuple({scale[0]})":
                        raise TranslateError(f"unsupported params {ast.unparse(kw['params'])}")
                    par = [str(scale[1]), scale[2]]
                added = {"table": nm.value.id, "controls": refs(kw.get("control_indices")), "targets": refs(kw.get("target_indices")),
                         "scale": par, "unpacked": env.get("#unpacked")}
            else:
                raise TranslateError(f"circuit_from_tket: unsupported statement `{ast.unparse(st)[:60]}`")
        if added is None:
            raise TranslateError(f"branch `{ast.unparse(test)}` adds nothing")
        for k in keys:
            if k not in tabs[added["table"]]:
                raise TranslateError(f"OpType.{k} is accepted by `{ast.unparse(test)}` but missing from {added['table']}")
            rows.append({"key": k, "name": tabs[added["table"]][k], "controls": added["controls"], "targets": added["targets"],
                         "scale": added["scale"], "unpacked": added["unpacked"]})
    return rows, skipped


def emit_reverse(gen_dir, json_path):
    rows, skipped = extract_reverse()
    out = []
    for r in rows:
        lib = TKET_CONTRACT.get(r["key"])
        if lib is None:
            raise TranslateError(f"OpType.{r['key']} has no contract")
        bk, bar, bnc, bnpar = KINDS[lib]
        if r["name"] not in KINDS:
            raise TranslateError(f"library name {r['name']} outside the vocabulary")
        fk, far, fnc, fnpar = KINDS[r["name"]]
        roles = r["controls"] + r["targets"]
        if far != bar or sorted(roles) != list(range(far)) or len(r["controls"]) != fnc \
                or (r["unpacked"] is not None and r["unpacked"] != bar) or fnpar != bnpar or (fnpar == 0) != (r["scale"] is None):
            raise TranslateError(f"OpType.{r['key']} -> {r['name']}: arity / control count / parameter mismatch")
        # the tket gate with half-turn parameters a_i is, by the contract, the library gate with angles pi a_i; the
        # converter hands over scale * a_i: with t_i = pi a_i the row compares angles t_i with (scale / pi) t_i
        src_angs = "; ".join(f"ang_var {i}" for i in range(bnpar))
        dst_angs = "; ".join(_ang(i, r["scale"], -1) for i in range(fnpar))
        out.append(f"(mkG {bk} [{'; '.join(str(i) for i in range(bar))}]%nat [{src_angs}], "
                   f"mkG {fk} [{'; '.join(str(x) for x in roles)}]%nat [{dst_angs}])")
    src = ("(* GENERATED by translate/tket_adapter.py from /repo -- do not edit *)\n"
           "From Coq Require Import ZArith List.\nFrom QP Require Import Gates.\nImport ListNotations.\n\n"
           "(* (the tket operation read through the contract; the library gate circuit_from_tket adds for it) *)\n"
           "Definition tket_rev : list (gate * gate) :=\n  [" + ";\n   ".join(out) + "].\n")
    open(os.path.join(gen_dir, "tketrev.v"), "w").write(src)
    json.dump({"rows": rows, "skipped": skipped, "contract": TKET_CONTRACT}, open(json_path, "w"), indent=1)
    return rows


if __name__ == "__main__":
    print(json.dumps(extract_forward(), indent=0)[:3000])
    for r in extract_reverse()[0]:
        print(r)
