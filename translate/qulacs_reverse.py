"""TR-qulacs-rev: fail-closed translation of packages/qulacs/.../circuit/qulacs_circuit_converter.py : circuit_from_qulacs.

The loop body is one if/elif chain on the Qulacs gate name.  Translated:
 * the branches that add one QuantumGate built from the name table and the gate's own control / target index lists (named
   one-qubit gates, CNOT / CZ, SWAP): rows (Qulacs gate read through the CONTRACT, library gate added), as for the other
   reverse converters.  CONTRACT: the Qulacs gate named N with control list C and target list T is the library gate of
   QULACS_NAME_CONTRACT[N] on C ++ T;
 * the rotation branch: the angle is recovered from the matrix of the gate with cmath.phase; the three expressions are
   translated into Coq terms over the entries of the matrix (`ent m i j`), complex +, -, *, / and the constants, and the
   outer `phase(...) * c`.  CONTRACT: the matrix of a Qulacs X/Y/Z-rotation gate is the library's RX/RY/RZ matrix for some
   real angle (Qulacs' own angle has the opposite sign, which never enters); cmath.phase meets `phase_contract`.
The Pauli / Pauli-rotation (JSON), DenseMatrix (TOFFOLI recognition, matrix fallback) branches are outside the modelled
vocabulary and are decided by the sweeps.  Never evaluates repository code."""
from __future__ import annotations

import ast
import json
import os

from vlib.common import REPO
from translate.templates import KINDS, TranslateError
from translate.tables import _parse

PATH = os.path.join(REPO, "packages/qulacs/quri_parts/qulacs/circuit/qulacs_circuit_converter.py")

QULACS_NAME_CONTRACT = {
    "I": "Identity", "X": "X", "Y": "Y", "Z": "Z", "H": "H", "S": "S", "Sdag": "Sdag", "T": "T", "Tdag": "Tdag",
    "sqrtX": "SqrtX", "sqrtXdag": "SqrtXdag", "sqrtY": "SqrtY", "sqrtYdag": "SqrtYdag", "X-rotation": "RX",
    "Y-rotation": "RY", "Z-rotation": "RZ", "CNOT": "CNOT", "CZ": "CZ", "SWAP": "SWAP",
}
OUTSIDE = {"Pauli", "Pauli-rotation", "DenseMatrix"}


def _tables(tree):
    tabs = {}
    for node in tree.body:
        if isinstance(node, ast.AnnAssign) and isinstance(node.target, ast.Name) and isinstance(node.value, ast.Dict):
            d = {}
            for k, v in zip(node.value.keys, node.value.values):
                if not (isinstance(k, ast.Constant) and isinstance(k.value, str) and isinstance(v, ast.Attribute)
                        and isinstance(v.value, ast.Name) and v.value.id == "gate_names"):
                    raise TranslateError(f"{node.target.id}: entries must be \"Name\": gate_names.X")
                d[k.value] = v.attr
            tabs[node.target.id] = d
    return tabs


def _ctree(node):
    """complex expression over the entries of `matrix` -> tree"""
    if isinstance(node, ast.Subscript) and isinstance(node.value, ast.Subscript) and ast.unparse(node.value.value) == "matrix" \
            and isinstance(node.slice, ast.Constant) and isinstance(node.value.slice, ast.Constant) \
            and node.slice.value in (0, 1) and node.value.slice.value in (0, 1):
        return ["ent", node.value.slice.value, node.slice.value]
    if isinstance(node, ast.Subscript) and ast.unparse(node.value) == "matrix" and isinstance(node.slice, ast.Tuple) \
            and len(node.slice.elts) == 2 and all(isinstance(e, ast.Constant) and e.value in (0, 1) for e in node.slice.elts):
        return ["ent", node.slice.elts[0].value, node.slice.elts[1].value]
    if isinstance(node, ast.Constant) and isinstance(node.value, complex) and node.value.real == 0 \
            and node.value.imag == int(node.value.imag):
        return ["imag", int(node.value.imag)]
    if isinstance(node, ast.Constant) and isinstance(node.value, (int, float)) and not isinstance(node.value, bool) \
            and node.value == int(node.value):
        return ["real", int(node.value)]
    if isinstance(node, ast.UnaryOp) and isinstance(node.op, ast.USub):
        return ["neg", _ctree(node.operand)]
    if isinstance(node, ast.BinOp):
        op = {ast.Add: "add", ast.Sub: "sub", ast.Mult: "mul", ast.Div: "div"}.get(type(node.op))
        if op:
            return [op, _ctree(node.left), _ctree(node.right)]
    raise TranslateError(f"unsupported complex expression {ast.unparse(node)}")


def _atree(node):
    """phase(E) | phase(E) * c | c * phase(E) -> tree"""
    def ph(n):
        if isinstance(n, ast.Call) and ast.unparse(n.func) in ("phase", "cmath.phase") and len(n.args) == 1:
            return ["phase", _ctree(n.args[0])]
        return None

    def const(n):
        if isinstance(n, ast.Constant) and isinstance(n.value, (int, float)) and not isinstance(n.value, bool) and n.value == int(n.value):
            return int(n.value)
        return None
    p = ph(node)
    if p:
        return p
    if isinstance(node, ast.BinOp) and isinstance(node.op, ast.Mult):
        if ph(node.left) and const(node.right) is not None:
            return ["scale", ph(node.left), const(node.right)]
        if ph(node.right) and const(node.left) is not None:
            return ["scale", ph(node.right), const(node.left)]
    raise TranslateError(f"unsupported angle expression {ast.unparse(node)}")


def coq_of(t):
    k = t[0]
    if k == "ent":
        return f"(ent m {t[1]} {t[2]})"
    if k == "imag":
        return f"(0, {t[1]})%R"
    if k == "real":
        return f"(RtoC ({t[1]}))"
    if k == "neg":
        return f"(Copp {coq_of(t[1])})"
    if k in ("add", "sub", "mul", "div"):
        return f"(C{k} {coq_of(t[1])} {coq_of(t[2])})"
    if k == "phase":
        return f"(phase {coq_of(t[1])})"
    if k == "scale":
        return f"({coq_of(t[1])} * {t[2]})%R"
    raise TranslateError(f"bad tree {t}")


def _angle_expr(node):
    return _atree(node)


def extract():
    tree = _parse(PATH)
    tabs = _tables(tree)
    imports = [ast.unparse(n) for n in tree.body if isinstance(n, (ast.Import, ast.ImportFrom))]
    if not any(s.startswith("from cmath import") and "phase" in s for s in imports):
        raise TranslateError("`phase` is not cmath.phase")
    fns = [n for n in tree.body if isinstance(n, ast.FunctionDef) and n.name == "circuit_from_qulacs"]
    if len(fns) != 1:
        raise TranslateError("circuit_from_qulacs not found")
    loops = [s for s in fns[0].body if isinstance(s, ast.For)]
    if len(loops) != 1 or ast.unparse(loops[0].iter) != "range(num_gates)":
        raise TranslateError("expected one loop over range(num_gates)")
    body = loops[0].body
    pre = [ast.unparse(s) for s in body[:2]]
    if pre != [f"gate = qulacs_circuit.get_gate({ast.unparse(loops[0].target)})", "gname = gate.get_name()"] or len(body) != 3 \
            or not isinstance(body[2], ast.If):
        raise TranslateError(f"unexpected loop body {pre}")
    branches, node = [], body[2]
    while True:
        branches.append((node.test, node.body))
        if len(node.orelse) == 1 and isinstance(node.orelse[0], ast.If):
            node = node.orelse[0]
        else:
            if not (len(node.orelse) == 1 and isinstance(node.orelse[0], ast.Raise)):
                raise TranslateError("the final else must raise")
            break

    def keys_of(test):
        if isinstance(test, ast.Compare) and len(test.ops) == 1 and ast.unparse(test.left) == "gname":
            r = test.comparators[0]
            if isinstance(test.ops[0], ast.In) and isinstance(r, ast.Name) and r.id in tabs:
                return list(tabs[r.id])
            if isinstance(test.ops[0], ast.In) and isinstance(r, ast.List):
                return [e.value for e in r.elts if isinstance(e, ast.Constant)]
            if isinstance(test.ops[0], ast.Eq) and isinstance(r, ast.Constant):
                return [r.value]
        raise TranslateError(f"unsupported test {ast.unparse(test)}")

    def qrefs(node):
        s = ast.unparse(node)
        if s == "tuple(gate.get_target_index_list())":
            return "all-targets"
        if not isinstance(node, ast.Tuple):
            raise TranslateError(f"unsupported index expression {s}")
        out = []
        for e in node.elts:
            se = ast.unparse(e)
            if isinstance(e, ast.Subscript) and isinstance(e.slice, ast.Constant) and ast.unparse(e.value) in (
                    "gate.get_target_index_list()", "gate.get_control_index_list()"):
                out.append(("T" if "target" in se else "C", e.slice.value))
            else:
                raise TranslateError(f"unsupported qubit reference {se}")
        return out

    def add_gate(st, keyset, want_params):
        if not (isinstance(st, ast.Expr) and isinstance(st.value, ast.Call) and ast.unparse(st.value.func) == "circuit.add_gate"
                and len(st.value.args) == 1 and isinstance(st.value.args[0], ast.Call)
                and ast.unparse(st.value.args[0].func) == "QuantumGate" and not st.value.args[0].args):
            raise TranslateError(f"expected circuit.add_gate(QuantumGate(...)), got `{ast.unparse(st)[:60]}`")
        kw = {k.arg: k.value for k in st.value.args[0].keywords}
        if set(kw) - {"name", "target_indices", "control_indices", "params"}:
            raise TranslateError(f"unsupported QuantumGate keywords {sorted(kw)}")
        nm = kw["name"]
        if not (isinstance(nm, ast.Subscript) and isinstance(nm.value, ast.Name) and nm.value.id in tabs
                and ast.unparse(nm.slice) == "gname"):
            raise TranslateError(f"unsupported name expression {ast.unparse(nm)}")
        if ("params" in kw) != want_params or (want_params and ast.unparse(kw["params"]) != "(angle,)"):
            raise TranslateError("unexpected params")
        tab = tabs[nm.value.id]
        for k in keyset:
            if k not in tab:
                raise TranslateError(f"{k} is accepted by the branch but missing from {nm.value.id}")
        return tab, qrefs(kw["target_indices"]), (qrefs(kw["control_indices"]) if "control_indices" in kw else [])

    rows, recs, skipped, seen = [], [], [], set()
    for test, body_ in branches:
        keys = [k for k in keys_of(test) if k not in seen]
        seen.update(keys)
        if all(k in OUTSIDE for k in keys):
            skipped += keys
            continue
        if len(body_) == 1:
            tab, tq, cq = add_gate(body_[0], keys, False)
            for k in keys:
                rows.append({"key": k, "name": tab[k], "controls": cq, "targets": tq})
            continue
        # rotation branch: matrix = gate.get_matrix(); if/elif angle = ...; add_gate
        if not (len(body_) == 3 and ast.unparse(body_[0]) == "matrix = gate.get_matrix()" and isinstance(body_[1], ast.If)):
            raise TranslateError(f"unsupported branch `{ast.unparse(test)}`")
        tab, tq, cq = add_gate(body_[2], keys, True)
        if tq != [("T", 0)] or cq:
            raise TranslateError("rotation gates must be added on the first target")
        sub, exprs = body_[1], {}
        while True:
            ks = keys_of(sub.test)
            if not (len(sub.body) == 1 and isinstance(sub.body[0], ast.Assign) and ast.unparse(sub.body[0].targets[0]) == "angle"):
                raise TranslateError("rotation branch: expected `angle = ...`")
            for k in ks:
                exprs.setdefault(k, _angle_expr(sub.body[0].value))
            if len(sub.orelse) == 1 and isinstance(sub.orelse[0], ast.If):
                sub = sub.orelse[0]
            else:
                if not (len(sub.orelse) == 1 and isinstance(sub.orelse[0], ast.Raise)):
                    raise TranslateError("rotation branch: the final else must raise")
                break
        for k in keys:
            if k not in exprs:
                raise TranslateError(f"rotation branch: no angle for {k} (RuntimeError)")
            recs.append({"key": k, "name": tab[k], "expr": exprs[k]})
    return rows, recs, skipped


def emit(gen_dir, json_path):
    rows, recs, skipped = extract()
    out = []
    for r in rows:
        lib = QULACS_NAME_CONTRACT.get(r["key"])
        if lib is None:
            raise TranslateError(f"Qulacs gate `{r['key']}` has no contract")
        bk, bar, bnc, bnpar = KINDS[lib]
        if r["name"] not in KINDS:
            raise TranslateError(f"library name {r['name']} outside the vocabulary")
        fk, far, fnc, fnpar = KINDS[r["name"]]
        # contract: the Qulacs gate is `lib` on C ++ T with |C| = bnc, |T| = bar - bnc
        def pos(ref):
            kind, i = ref
            if kind == "C":
                if i >= bnc:
                    raise TranslateError(f"{r['key']}: control {i} does not exist")
                return i
            if i >= bar - bnc:
                raise TranslateError(f"{r['key']}: target {i} does not exist")
            return bnc + i
        tq = list(range(bnc, bar)) if r["targets"] == "all-targets" else [pos(x) for x in r["targets"]]
        cq = [pos(x) for x in r["controls"]]
        roles = cq + tq
        if far != bar or sorted(roles) != list(range(far)) or len(cq) != fnc or bnpar or fnpar:
            raise TranslateError(f"{r['key']} -> {r['name']}: arity / control count mismatch")
        out.append(f"(mkG {bk} [{'; '.join(str(i) for i in range(bar))}]%nat [], mkG {fk} [{'; '.join(str(x) for x in roles)}]%nat [])")
    rl = []
    for r in recs:
        lib = QULACS_NAME_CONTRACT.get(r["key"])
        if lib not in ("RX", "RY", "RZ") or r["name"] not in KINDS:
            raise TranslateError(f"rotation `{r['key']}` -> {r['name']}: outside the contract")
        rl.append(f"({KINDS[lib][0]}, {KINDS[r['name']][0]}, fun (phase : C -> R) (m : CM) => {coq_of(r['expr'])})")
    src = ("(* GENERATED by translate/qulacs_reverse.py from /repo -- do not edit *)\n"
           "From Coq Require Import ZArith List Reals.\nFrom QP Require Import Cx Apply Gates.\nFrom QPM Require Import AngleRecovery.\n"
           "Import ListNotations.\n\n"
           "(* (the Qulacs gate read through the contract; the library gate circuit_from_qulacs adds for it) *)\n"
           "Definition qulacs_rev : list (gate * gate) :=\n  [" + ";\n   ".join(out) + "].\n\n"
           "(* (kind of the Qulacs rotation by the contract, kind of the library gate added, the angle it is given as a function\n"
           "   of cmath.phase and the matrix of the Qulacs gate) *)\n"
           "Definition qulacs_rec : list (gkind * gkind * ((C -> R) -> CM -> R)) :=\n  [" + ";\n   ".join(rl) + "].\n")
    open(os.path.join(gen_dir, "qulacsrev.v"), "w").write(src)
    json.dump({"rows": rows, "recs": recs, "skipped": skipped, "contract": QULACS_NAME_CONTRACT}, open(json_path, "w"), indent=1)
    return rows


if __name__ == "__main__":
    rows, recs, sk = extract()
    for r in rows + recs:
        print(r)
    print("skipped", sk)
