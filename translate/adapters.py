"""TR-adapt: fail-closed symbolic evaluation of the Qulacs adapter's convert_gate (packages/qulacs/.../circuit/
__init__.py) specialised to every gate kind of the modelled vocabulary: which backend gate is built, with which
qubit order and which parameter expressions (sign flips).  Never evaluates repo code."""
from __future__ import annotations

import ast
import json
import os
from fractions import Fraction

from vlib.common import REPO
from translate.templates import KINDS, Affine, TranslateError, coq_ang
from translate.tables import _find_assign, _parse

PATH = os.path.join(REPO, "packages/qulacs/quri_parts/qulacs/circuit/__init__.py")
GN_PATH = os.path.join(REPO, "packages/circuit/quri_parts/circuit/gate_names.py")


class Sym:
    """symbolic tuple of qubit indices: 'targets' or 'controls'"""

    def __init__(self, kind):
        self.kind = kind


class BackendGate:
    def __init__(self, name, args):
        self.name, self.args = name, args  # args: list of Sym | Affine


def _name_sets():
    tree = _parse(GN_PATH)
    sets = {}
    for var in ("SINGLE_QUBIT_GATE_NAMES", "TWO_QUBIT_GATE_NAMES", "THREE_QUBIT_GATE_NAMES", "MULTI_QUBIT_GATE_NAMES",
                "UNITARY_MATRIX_GATE_NAMES", "PARAMETRIC_GATE_NAMES", "MEASUREMENT_GATE_NAMES"):
        val = _find_assign(tree, var)
        if not isinstance(val, ast.Set):
            raise TranslateError(f"{var} is not a set literal")
        sets[var] = {e.id for e in val.elts if isinstance(e, ast.Name)}
        if len(sets[var]) != len(val.elts):
            raise TranslateError(f"{var}: unexpected element")
    preds = {"is_single_qubit_gate_name": sets["SINGLE_QUBIT_GATE_NAMES"],
             "is_two_qubit_gate_name": sets["TWO_QUBIT_GATE_NAMES"],
             "is_three_qubit_gate_name": sets["THREE_QUBIT_GATE_NAMES"],
             "is_multi_qubit_gate_name": sets["MULTI_QUBIT_GATE_NAMES"],
             "is_unitary_matrix_gate_name": sets["UNITARY_MATRIX_GATE_NAMES"],
             "is_parametric_gate_name": sets["PARAMETRIC_GATE_NAMES"]}
    allnames = set().union(*sets.values())
    preds["is_gate_name"] = allnames
    # make sure the predicates really are membership tests of those sets
    for fn in tree.body:
        if isinstance(fn, ast.FunctionDef) and fn.name in preds and fn.name != "is_gate_name":
            body = [s for s in fn.body if isinstance(s, ast.Return)]
            if len(body) != 1 or "gate_name in " not in ast.unparse(body[0]):
                raise TranslateError(f"{fn.name} is not a plain membership test")
    return preds


def _tables(tree, backend_mod):
    """{gate_names.X: <backend_mod>.gate.Y} dict literals -> {table: {X: Y}}"""
    tabs = {}
    for node in tree.body:
        tgt = val = None
        if isinstance(node, ast.AnnAssign) and isinstance(node.target, ast.Name):
            tgt, val = node.target.id, node.value
        elif isinstance(node, ast.Assign) and isinstance(node.targets[0], ast.Name):
            tgt, val = node.targets[0].id, node.value
        if tgt is None or not isinstance(val, ast.Dict):
            continue
        d = {}
        ok = True
        for k, v in zip(val.keys, val.values):
            if not (isinstance(k, ast.Attribute) and isinstance(k.value, ast.Name) and k.value.id == "gate_names"):
                ok = False
                break
            src = ast.unparse(v)
            if not src.startswith(backend_mod + ".gate."):
                ok = False
                break
            d[k.attr] = src[len(backend_mod + ".gate."):]
        if ok and d:
            tabs[tgt] = d
    return tabs


class Interp:
    def __init__(self, name, nparams, tabs, preds, helpers, backend_mod):
        self.name, self.tabs, self.preds, self.helpers, self.bm = name, tabs, preds, helpers, backend_mod
        self.params = tuple(Affine(th={i: Fraction(1)}) for i in range(nparams))
        self.env = {}

    def ev(self, node):
        if isinstance(node, ast.Name):
            if node.id == "gate":
                return "GATE"
            if node.id in self.env:
                return self.env[node.id]
            raise TranslateError(f"line {node.lineno}: unknown name {node.id}")
        if isinstance(node, ast.Attribute):
            if isinstance(node.value, ast.Name) and node.value.id == "gate":
                if node.attr == "name":
                    return self.name
                if node.attr == "params":
                    return self.params
                if node.attr == "target_indices":
                    return (Sym("targets"),)
                if node.attr == "control_indices":
                    return (Sym("controls"),)
                raise TranslateError(f"gate.{node.attr} not supported for the modelled kinds")
            if isinstance(node.value, ast.Name) and node.value.id == "gate_names":
                return node.attr
            raise TranslateError(f"line {node.lineno}: unsupported attribute {ast.unparse(node)}")
        if isinstance(node, ast.UnaryOp) and isinstance(node.op, ast.USub):
            v = self.ev(node.operand)
            if isinstance(v, Affine):
                return v.scale(-1)
            raise TranslateError("negation of a non-number")
        if isinstance(node, ast.UnaryOp) and isinstance(node.op, ast.Not):
            v = self.ev(node.operand)
            if isinstance(v, bool):
                return not v
            raise TranslateError("not of a non-boolean")
        if isinstance(node, ast.GeneratorExp):
            gen = node.generators[0]
            seq = self.ev(gen.iter)
            out = []
            for x in seq:
                self.env[gen.target.id] = x
                out.append(self.ev(node.elt))
            self.env.pop(gen.target.id, None)
            return tuple(out)
        if isinstance(node, ast.Compare) and len(node.ops) == 1:
            l = self.ev(node.left)
            r = node.comparators[0]
            if isinstance(node.ops[0], ast.In) and isinstance(r, ast.Name) and r.id in self.tabs:
                return l in self.tabs[r.id]
            if isinstance(node.ops[0], ast.Eq):
                return l == self.ev(r)
            raise TranslateError("unsupported comparison")
        if isinstance(node, ast.Call):
            f = node.func
            if isinstance(f, ast.Name) and f.id in self.preds and len(node.args) == 1:
                return self.ev(node.args[0]) in self.preds[f.id]
            if isinstance(f, ast.Name) and f.id == "cast" and len(node.args) == 2:
                return self.ev(node.args[1])
            if isinstance(f, ast.Name) and f.id in self.helpers and len(node.args) == 1 and self.ev(node.args[0]) == "GATE":
                fn = self.helpers[f.id]
                if [a.arg for a in fn.args.args] != ["gate"]:
                    raise TranslateError(f"helper {f.id}: unexpected signature")
                sub = Interp(self.name, len(self.params), self.tabs, self.preds, self.helpers, self.bm)
                return sub.run(fn.body)
            callee = None
            if isinstance(f, ast.Subscript) and isinstance(f.value, ast.Name) and f.value.id in self.tabs:
                key = self.ev(f.slice)
                if key not in self.tabs[f.value.id]:
                    raise TranslateError(f"KeyError {key} in {f.value.id}")
                callee = self.tabs[f.value.id][key]
            elif ast.unparse(f).startswith(self.bm + ".gate."):
                callee = ast.unparse(f)[len(self.bm + ".gate."):]
            if callee is not None:
                args = []
                for a in node.args:
                    if not isinstance(a, ast.Starred):
                        raise TranslateError("backend factory call must use starred arguments for the modelled kinds")
                    v = self.ev(a.value)
                    if not isinstance(v, tuple):
                        raise TranslateError("starred argument is not a tuple")
                    args += list(v)
                return BackendGate(callee, args)
            raise TranslateError(f"line {node.lineno}: unsupported call {ast.unparse(f)}")
        raise TranslateError(f"line {getattr(node, 'lineno', '?')}: unsupported expression {type(node).__name__}")

    def run(self, stmts):
        for st in stmts:
            if isinstance(st, ast.Expr) and isinstance(st.value, ast.Constant):
                continue
            if isinstance(st, ast.Assign) and len(st.targets) == 1 and isinstance(st.targets[0], ast.Name):
                self.env[st.targets[0].id] = self.ev(st.value)
            elif isinstance(st, ast.If):
                c = self.ev(st.test)
                if not isinstance(c, bool):
                    raise TranslateError(f"line {st.lineno}: non-boolean test")
                r = self.run(st.body if c else st.orelse)
                if r is not None:
                    return r
            elif isinstance(st, ast.Return):
                return self.ev(st.value)
            elif isinstance(st, ast.Raise):
                return "RAISE"
            elif isinstance(st, ast.Assert):
                return "RAISE"
            else:
                raise TranslateError(f"line {st.lineno}: unsupported statement {type(st).__name__}")
        return None


def extract_qulacs():
    tree = _parse(PATH)
    preds = _name_sets()
    tabs = _tables(tree, "qulacs")
    helpers = {n.name: n for n in tree.body if isinstance(n, ast.FunctionDef) and n.name.startswith("_")}
    fn = [n for n in tree.body if isinstance(n, ast.FunctionDef) and n.name == "convert_gate"]
    if len(fn) != 1:
        raise TranslateError("convert_gate not found")
    res = {}
    for name, (ck, ar, nc, npar) in KINDS.items():
        out = Interp(name, npar, tabs, preds, helpers, "qulacs").run(fn[0].body)
        if not isinstance(out, BackendGate):
            raise TranslateError(f"convert_gate({name}) does not produce a backend gate ({out})")
        order, angles = [], []
        for a in out.args:
            if isinstance(a, Sym):
                if angles:
                    raise TranslateError("qubit arguments after parameters")
                order.append(a.kind)
            elif isinstance(a, Affine):
                angles.append(a.to_json(npar))
            else:
                raise TranslateError("unexpected argument")
        res[name] = {"backend": out.name, "order": order, "angles": angles}
    return res


# documented conventions of the Qulacs gate constructors, expressed in the library's own vocabulary:
#   backend name -> (library kind, qubit order, sign applied to every angle)
# qulacs.gate.RX(i, a) = exp(+i a X / 2) = library RX(-a); U1/U2/U3 and the named gates agree.
QULACS_CONTRACT = {
    "Identity": ("Identity", 1), "X": ("X", 1), "Y": ("Y", 1), "Z": ("Z", 1), "H": ("H", 1), "S": ("S", 1),
    "Sdag": ("Sdag", 1), "sqrtX": ("SqrtX", 1), "sqrtXdag": ("SqrtXdag", 1), "sqrtY": ("SqrtY", 1),
    "sqrtYdag": ("SqrtYdag", 1), "T": ("T", 1), "Tdag": ("Tdag", 1),
    "RX": ("RX", -1), "RY": ("RY", -1), "RZ": ("RZ", -1), "U1": ("U1", 1), "U2": ("U2", 1), "U3": ("U3", 1),
    "CNOT": ("CNOT", 1), "CZ": ("CZ", 1), "SWAP": ("SWAP", 1), "TOFFOLI": ("TOFFOLI", 1),
}


def emit(gen_dir, json_path):
    conv = extract_qulacs()
    rows = []
    for name in sorted(conv):
        c = conv[name]
        k, ar, nc, npar = KINDS[name]
        if c["backend"] not in QULACS_CONTRACT:
            raise TranslateError(f"backend gate {c['backend']} has no documented contract")
        lib, sign = QULACS_CONTRACT[c["backend"]]
        lk, lar, lnc, lnpar = KINDS[lib]
        if lar != ar or lnpar != len(c["angles"]):
            raise TranslateError(f"{name} -> {c['backend']}: arity/parameter count mismatch")
        # qubit order: the backend takes (controls..., targets...) for controlled gates, targets for the others
        if c["order"] == ["controls", "targets"] and lnc == nc:
            qs = list(range(ar))
        elif c["order"] == ["targets"] and nc == 0:
            qs = list(range(ar))
        elif c["order"] == ["targets", "controls"] and lnc == nc:
            qs = list(range(nc, ar)) + list(range(nc))      # would put targets in the control slots
        else:
            raise TranslateError(f"{name}: unexpected qubit argument order {c['order']}")
        angs = "; ".join(coq_ang({"pi4": sign * a["pi4"], "th": [sign * x for x in a["th"]]}) for a in c["angles"])
        rows.append(f"({k}, mkG {lk} [{'; '.join(str(q) for q in qs)}]%nat [{angs}])")
    src = ("(* GENERATED by translate/adapters.py from /repo -- do not edit *)\n"
           "From Coq Require Import ZArith List.\nFrom QP Require Import Gates.\nImport ListNotations.\n\n"
           "(* (library kind, the Qulacs gate built by convert_gate for the canonical gate of that kind, expressed in\n"
           "   the library's vocabulary through the documented Qulacs conventions) *)\n"
           "Definition qulacs_conv : list (gkind * gate) :=\n  [" + ";\n   ".join(rows) + "].\n")
    open(os.path.join(gen_dir, "qulacsconv.v"), "w").write(src)
    json.dump({"convert_gate": conv, "contract": QULACS_CONTRACT}, open(json_path, "w"), indent=1)
    return conv


if __name__ == "__main__":
    print(json.dumps(extract_qulacs(), indent=1))
