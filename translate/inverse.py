"""TR-inv: fail-closed symbolic evaluation of circuit/inverse.py:inverse_gate, specialised to each
gate kind of the modelled vocabulary.  For every kind K the function body is executed on a symbolic
gate (name = K, params = formal angles theta_i, target/control indices = the canonical roles) by a tiny
interpreter that accepts only the statement/expression shapes listed below and aborts on anything else.
Result: per kind the inverse gate (name, angles as affine forms).  Never evaluates repo code."""
from __future__ import annotations

import ast
import json
import os
import re
from fractions import Fraction

from vlib.common import REPO
from translate.templates import KINDS, Affine, TranslateError, coq_ang
from translate.tables import _find_assign, _parse

PATH = os.path.join(REPO, "packages/circuit/quri_parts/circuit/inverse.py")
GN_PATH = os.path.join(REPO, "packages/circuit/quri_parts/circuit/gate_names.py")


class SymGate:
    def __init__(self, name, params):
        self.name, self.params = name, params  # params: tuple of Affine


class Targets:
    """symbolic gate.target_indices (unchanged qubits)"""


def _name_set(tree, var):
    val = _find_assign(tree, var)
    if not isinstance(val, ast.Set):
        raise TranslateError(f"{var} is not a set literal")
    out = []
    for e in val.elts:
        if not isinstance(e, ast.Name):
            raise TranslateError(f"{var}: unexpected element")
        out.append(e.id)
    return set(out)


def _table(tree, var):
    """{gate_names.X: gates.Y} -> {X: Y}"""
    val = _find_assign(tree, var)
    if not isinstance(val, ast.Dict):
        raise TranslateError(f"{var} is not a dict literal")
    tab = {}
    for k, v in zip(val.keys, val.values):
        if not (isinstance(k, ast.Attribute) and isinstance(k.value, ast.Name) and k.value.id == "gate_names"):
            raise TranslateError(f"{var}: key must be gate_names.X")
        if not (isinstance(v, ast.Attribute) and isinstance(v.value, ast.Name) and v.value.id == "gates"):
            raise TranslateError(f"{var}: value must be gates.X")
        tab[k.attr] = v.attr
    return tab


class Interp:
    def __init__(self, gate: SymGate, tables, single_names):
        self.gate, self.tables, self.single = gate, tables, single_names
        self.env = {}

    # ---- expressions
    def ev(self, node):
        if isinstance(node, ast.Name):
            if node.id == "gate":
                return self.gate
            if node.id in self.env:
                return self.env[node.id]
            raise TranslateError(f"line {node.lineno}: unknown name {node.id}")
        if isinstance(node, ast.Attribute):
            if isinstance(node.value, ast.Name) and node.value.id == "gate":
                if node.attr == "name":
                    return self.gate.name
                if node.attr == "params":
                    return tuple(self.gate.params)
                if node.attr == "target_indices":
                    return Targets()
                raise TranslateError(f"line {node.lineno}: gate.{node.attr} not supported for modelled kinds")
            if isinstance(node.value, ast.Name) and node.value.id == "gate_names":
                return node.attr
            if isinstance(node.value, ast.Name) and node.value.id in ("np", "numpy", "math") and node.attr == "pi":
                return Affine(cpi=1)
            raise TranslateError(f"line {node.lineno}: unsupported attribute {ast.dump(node)}")
        if isinstance(node, ast.Constant) and isinstance(node.value, (int, float)):
            from fractions import Fraction
            return Affine(c0=Fraction(node.value).limit_denominator(10 ** 9))
        if isinstance(node, ast.UnaryOp) and isinstance(node.op, ast.USub):
            v = self.ev(node.operand)
            if isinstance(v, Affine):
                return v.scale(-1)
            raise TranslateError(f"line {node.lineno}: negation of non-number")
        if isinstance(node, ast.BinOp):
            a, b = self.ev(node.left), self.ev(node.right)
            if not (isinstance(a, Affine) and isinstance(b, Affine)):
                raise TranslateError(f"line {node.lineno}: arithmetic on non-numbers")
            if isinstance(node.op, ast.Add):
                return a.add(b)
            if isinstance(node.op, ast.Sub):
                return a.add(b, -1)
            if isinstance(node.op, ast.Mult):
                if a.is_const():
                    return b.scale(a.c0)
                if b.is_const():
                    return a.scale(b.c0)
            if isinstance(node.op, ast.Div) and b.is_const() and b.c0 != 0:
                return a.scale(1 / b.c0)
            raise TranslateError(f"line {node.lineno}: unsupported arithmetic")
        if isinstance(node, ast.Tuple):
            return tuple(self.ev(e) for e in node.elts)
        if isinstance(node, ast.GeneratorExp):
            if len(node.generators) != 1 or node.generators[0].ifs:
                raise TranslateError("unsupported generator")
            gen = node.generators[0]
            seq = self.ev(gen.iter)
            if not isinstance(seq, tuple) or not isinstance(gen.target, ast.Name):
                raise TranslateError("generator over non-tuple")
            out = []
            for x in seq:
                old = self.env.get(gen.target.id)
                self.env[gen.target.id] = x
                out.append(self.ev(node.elt))
                if old is None:
                    del self.env[gen.target.id]
                else:
                    self.env[gen.target.id] = old
            return tuple(out)
        if isinstance(node, ast.Call):
            f = node.func
            if isinstance(f, ast.Name) and f.id == "tuple" and len(node.args) == 1:
                v = self.ev(node.args[0])
                if isinstance(v, tuple):
                    return v
                raise TranslateError("tuple() of non-sequence")
            if isinstance(f, ast.Name) and f.id == "is_single_qubit_gate_name" and len(node.args) == 1:
                return self.ev(node.args[0]) in self.single
            direct = isinstance(f, ast.Attribute) and isinstance(f.value, ast.Name) and f.value.id == "gates" and f.attr in KINDS
            if direct or (isinstance(f, ast.Subscript) and isinstance(f.value, ast.Name) and f.value.id in self.tables):
                if direct:  # gates.X(*target_indices, angle, ...)
                    out_name = f.attr
                else:
                    key = self.ev(f.slice)
                    if key not in self.tables[f.value.id]:
                        raise TranslateError(f"KeyError {key} in {f.value.id}")
                    out_name = self.tables[f.value.id][key]
                if node.keywords:
                    raise TranslateError("factory call with keyword arguments")
                args = []
                saw_targets = False
                for a in node.args:
                    if not isinstance(a, ast.Starred):
                        v = self.ev(a)
                        if not (saw_targets and isinstance(v, Affine)):
                            raise TranslateError("a plain factory argument must be an angle after the target indices")
                        args.append(v)
                        continue
                    v = self.ev(a.value)
                    if isinstance(v, Targets):
                        if saw_targets or args:
                            raise TranslateError("target indices must come first, once")
                        saw_targets = True
                    elif isinstance(v, tuple):
                        args += list(v)
                    else:
                        raise TranslateError("unsupported starred argument")
                if not saw_targets:
                    raise TranslateError("factory call without target indices")
                return SymGate(out_name, tuple(args))
            raise TranslateError(f"line {node.lineno}: unsupported call {ast.dump(f)}")
        if isinstance(node, ast.Compare) and len(node.ops) == 1:
            l, r = self.ev(node.left), node.comparators[0]
            if isinstance(node.ops[0], ast.In):
                if isinstance(r, ast.Name) and r.id in self.tables:
                    return l in self.tables[r.id]
                raise TranslateError("`in` against unknown table")
            if isinstance(node.ops[0], ast.Eq):
                return l == self.ev(r)
            raise TranslateError("unsupported comparison")
        raise TranslateError(f"line {getattr(node, 'lineno', '?')}: unsupported expression {type(node).__name__}")

    # ---- statements
    def run(self, stmts):
        for st in stmts:
            if isinstance(st, ast.Expr) and isinstance(st.value, ast.Constant):
                continue
            if isinstance(st, ast.Assign) and len(st.targets) == 1:
                tgt = st.targets[0]
                val = self.ev(st.value)
                if isinstance(tgt, ast.Name):
                    self.env[tgt.id] = val
                elif isinstance(tgt, ast.Tuple) and isinstance(val, tuple) and len(val) == len(tgt.elts):
                    for t, v in zip(tgt.elts, val):
                        if not isinstance(t, ast.Name):
                            raise TranslateError("nested unpack")
                        self.env[t.id] = v
                else:
                    raise TranslateError(f"line {st.lineno}: unsupported assignment")
            elif isinstance(st, ast.If):
                c = self.ev(st.test)
                if not isinstance(c, bool):
                    raise TranslateError(f"line {st.lineno}: non-boolean test")
                r = self.run(st.body if c else st.orelse)
                if r is not None:
                    return r
            elif isinstance(st, ast.Return):
                return self.ev(st.value)
            else:
                raise TranslateError(f"line {st.lineno}: unsupported statement {type(st).__name__}")
        return None


def extract():
    tree = _parse(PATH)
    gn = _parse(GN_PATH)
    single = _name_set(gn, "SINGLE_QUBIT_GATE_NAMES")
    tables = {"_single_qubit_gate_dagger": _table(tree, "_single_qubit_gate_dagger"),
              "_rotation_gate_dagger": _table(tree, "_rotation_gate_dagger")}
    fn = [n for n in tree.body if isinstance(n, ast.FunctionDef) and n.name == "inverse_gate"]
    if len(fn) != 1:
        raise TranslateError("inverse_gate not found")
    res = {}
    for name, (ck, ar, nc, npar) in KINDS.items():
        g = SymGate(name, tuple(Affine(th={i: 1}) for i in range(npar)))
        out = Interp(g, tables, single).run(fn[0].body)
        if not isinstance(out, SymGate):
            raise TranslateError(f"inverse_gate({name}) did not evaluate to a gate")
        if out.name not in KINDS or KINDS[out.name][1:3] != (ar, nc):
            raise TranslateError(f"inverse_gate({name}) -> {out.name}: arity mismatch")
        if len(out.params) != KINDS[out.name][3]:
            raise TranslateError(f"inverse_gate({name}) -> {out.name}: wrong parameter count")
        res[name] = {"name": out.name, "angles": [a.to_json(npar) for a in out.params]}
    # inverse_circuit: fingerprint only (reversal of the mapped list)
    return res


def special_branches():
    """The PauliRotation and UnitaryMatrix branches of inverse_gate (outside the per-kind table).
    PauliRotation: the gate rebuilt on the same targets / Pauli ids with the angle scaled by a constant (expected -1).
    UnitaryMatrix: the gate rebuilt on the same targets with a matrix obtained from gate.unitary_matrix by a chain of
    np.array / .conj() / .conjugate() / .T / .transpose() / .tolist(): recorded as (conjugated?, transposed?)."""
    tree = _parse(PATH)
    fn = [n for n in tree.body if isinstance(n, ast.FunctionDef) and n.name == "inverse_gate"]
    if len(fn) != 1:
        raise TranslateError("inverse_gate not found")
    body = fn[0].body
    if not (isinstance(body[0], ast.Assign) and ast.unparse(body[0]) == "target_indices = gate.target_indices"):
        raise TranslateError("inverse_gate: expected `target_indices = gate.target_indices` first")
    chain = [s for s in body if isinstance(s, ast.If)]
    if len(chain) != 1:
        raise TranslateError("inverse_gate: expected one if/elif chain")
    branches, node = {}, chain[0]
    while True:
        t = ast.unparse(node.test)
        m = re.fullmatch(r"gate\.name == gate_names\.(\w+)", t)
        if m:
            branches[m.group(1)] = node.body
        if len(node.orelse) == 1 and isinstance(node.orelse[0], ast.If):
            node = node.orelse[0]
        else:
            break
    out = {}
    # ---- PauliRotation
    b = branches.get("PauliRotation")
    if b is None:
        raise TranslateError("inverse_gate: no PauliRotation branch")
    env = {}
    res = None
    for st in b:
        if not (isinstance(st, ast.Assign) and len(st.targets) == 1 and isinstance(st.targets[0], ast.Name)):
            raise TranslateError("PauliRotation branch: only simple assignments are supported")
        name, v = st.targets[0].id, st.value
        s = ast.unparse(v)
        if s == "gate.pauli_ids":
            env[name] = ("ids",)
        elif s == "gate.params[0]":
            env[name] = ("angle", Fraction(1))
        elif isinstance(v, ast.UnaryOp) and isinstance(v.op, ast.USub) and isinstance(v.operand, ast.Name) \
                and env.get(v.operand.id, ("",))[0] == "angle":
            env[name] = ("angle", -env[v.operand.id][1])
        elif isinstance(v, ast.BinOp) and isinstance(v.op, ast.Mult):
            l, r = v.left, v.right
            if isinstance(l, ast.Name) and env.get(l.id, ("",))[0] == "angle":
                l, r = r, l
            if isinstance(r, ast.Name) and env.get(r.id, ("",))[0] == "angle":
                c = l.operand if isinstance(l, ast.UnaryOp) and isinstance(l.op, ast.USub) else l
                if isinstance(c, ast.Constant) and isinstance(c.value, (int, float)) and c.value == int(c.value):
                    k = Fraction(int(c.value)) * (-1 if c is not l else 1)
                    env[name] = ("angle", env[r.id][1] * k)
                    continue
            raise TranslateError(f"PauliRotation branch: unsupported `{s}`")
        elif isinstance(v, ast.Call) and ast.unparse(v.func) == "gates.PauliRotation" and len(v.args) == 3 and not v.keywords:
            a0, a1, a2 = v.args
            ok = ast.unparse(a0) == "target_indices" and isinstance(a1, ast.Name) and env.get(a1.id) == ("ids",) \
                and isinstance(a2, ast.Name) and env.get(a2.id, ("",))[0] == "angle"
            if not ok or name != "inverse_gate":
                raise TranslateError(f"PauliRotation branch: unsupported construction `{s}`")
            res = env[a2.id][1]
        else:
            raise TranslateError(f"PauliRotation branch: unsupported `{s}`")
    if res is None or res.denominator != 1:
        raise TranslateError("PauliRotation branch builds no gate")
    out["PauliRotation"] = {"angle_scale": int(res)}
    # ---- UnitaryMatrix
    b = branches.get("UnitaryMatrix")
    if b is None:
        raise TranslateError("inverse_gate: no UnitaryMatrix branch")

    def mat(node, env):
        """-> (conj, transposed) of gate.unitary_matrix"""
        if isinstance(node, ast.Name) and node.id in env:
            return env[node.id]
        if ast.unparse(node) == "gate.unitary_matrix":
            return (False, False)
        if isinstance(node, ast.Attribute) and node.attr == "T":
            c, t = mat(node.value, env)
            return (c, not t)
        if isinstance(node, ast.Call):
            f = node.func
            if isinstance(f, ast.Attribute) and f.attr in ("conj", "conjugate") and not node.args \
                    and not (isinstance(f.value, ast.Name) and f.value.id in ("np", "numpy")):
                c, t = mat(f.value, env)
                return (not c, t)
            if isinstance(f, ast.Attribute) and f.attr == "transpose" and not node.args \
                    and not (isinstance(f.value, ast.Name) and f.value.id in ("np", "numpy")):
                c, t = mat(f.value, env)
                return (c, not t)
            if isinstance(f, ast.Attribute) and f.attr == "tolist" and not node.args:
                return mat(f.value, env)
            fs = ast.unparse(f)
            if fs in ("np.array", "np.asarray", "numpy.array") and len(node.args) == 1 \
                    and all(k.arg == "dtype" for k in node.keywords):
                return mat(node.args[0], env)
            if fs in ("np.conj", "np.conjugate") and len(node.args) == 1:
                c, t = mat(node.args[0], env)
                return (not c, t)
            if fs == "np.transpose" and len(node.args) == 1:
                c, t = mat(node.args[0], env)
                return (c, not t)
        raise TranslateError(f"UnitaryMatrix branch: unsupported matrix expression `{ast.unparse(node)}`")
    env, res = {}, None
    for st in b:
        if not (isinstance(st, ast.Assign) and len(st.targets) == 1 and isinstance(st.targets[0], ast.Name)):
            raise TranslateError("UnitaryMatrix branch: only simple assignments are supported")
        name, v = st.targets[0].id, st.value
        if isinstance(v, ast.Call) and ast.unparse(v.func) == "gates.UnitaryMatrix" and len(v.args) == 2 and not v.keywords:
            if ast.unparse(v.args[0]) != "target_indices" or name != "inverse_gate":
                raise TranslateError("UnitaryMatrix branch: the inverse must be built on target_indices")
            res = mat(v.args[1], env)
        else:
            env[name] = mat(v, env)
    if res is None:
        raise TranslateError("UnitaryMatrix branch builds no gate")
    out["UnitaryMatrix"] = {"conj": res[0], "transpose": res[1]}
    return out


def emit_coq(inv: dict, known_bad: list[str]) -> str:
    rows = []
    for name in sorted(inv):
        o = inv[name]
        k, ar, nc, npar = KINDS[name]
        angs = "; ".join(coq_ang(a) for a in o["angles"])
        rows.append(f"  ({k}, mkG {KINDS[o['name']][0]} (seq 0 {ar}) [{angs}])")
    kb = "; ".join(KINDS[n][0] for n in known_bad)
    return ("(* GENERATED by translate/inverse.py from /repo -- do not edit *)\n"
            "From Coq Require Import ZArith List.\nFrom QP Require Import Gates.\nImport ListNotations.\n\n"
            "(* (kind, inverse_gate applied to the canonical gate of that kind) *)\n"
            "Definition inverse_table : list (gkind * gate) :=\n  [" + ";\n   ".join(r.strip() for r in rows) + "].\n\n"
            f"(* kinds listed in KNOWN_FINDINGS.txt for C12 *)\nDefinition inverse_known_bad : list gkind := [{kb}].\n")


def emit_special(sp: dict) -> str:
    b = lambda x: "true" if x else "false"  # noqa: E731
    return ("\n(* the UnitaryMatrix branch of inverse_gate: (conjugated?, transposed?) matrix on the same targets *)\n"
            f"Definition um_inverse_flags : bool * bool := ({b(sp['UnitaryMatrix']['conj'])}, {b(sp['UnitaryMatrix']['transpose'])}).\n"
            "(* the PauliRotation branch: same targets and Pauli ids, the angle multiplied by *)\n"
            f"Definition prot_inverse_scale : Z := ({sp['PauliRotation']['angle_scale']})%Z.\n")


def run(gen_dir, json_path, known_bad):
    inv = extract()
    sp = special_branches()
    open(os.path.join(gen_dir, "invtab.v"), "w").write(emit_coq(inv, known_bad) + emit_special(sp))
    json.dump(inv, open(json_path, "w"), indent=1)
    json.dump(sp, open(os.path.join(os.path.dirname(json_path), "invspecial.json"), "w"), indent=1)
    return inv


if __name__ == "__main__":
    print(json.dumps(extract(), indent=1))
